//! C07 — every value a gate computes is pinned by that gate's constraints.
//!
//! One row of every built-in gate, in isolation (no circuit): the gate's own witness generators fill
//! the row from enumerated inputs; the honest row must satisfy `eval_unfiltered`, every generator-written
//! wire must be pinned (any single replacement makes a constraint non-zero), the four evaluators must
//! agree, and the constraint count / degree must be as declared.  A boring reference model per gate
//! (harness arithmetic only) states what the written wires should hold.

use std::collections::{BTreeMap, BTreeSet};

use plonky2::field::extension::quadratic::QuadraticExtension;
use plonky2::field::goldilocks_field::GoldilocksField as F;
use plonky2::field::packable::Packable;
use plonky2::field::packed::PackedField;
use plonky2::field::types::Field;
use plonky2::gates::arithmetic_base::ArithmeticGate;
use plonky2::gates::arithmetic_extension::ArithmeticExtensionGate;
use plonky2::gates::base_sum::BaseSumGate;
use plonky2::gates::constant::ConstantGate;
use plonky2::gates::coset_interpolation::CosetInterpolationGate;
use plonky2::gates::exponentiation::ExponentiationGate;
use plonky2::gates::gate::GateRef;
use plonky2::gates::multiplication_extension::MulExtensionGate;
use plonky2::gates::poseidon::PoseidonGate;
use plonky2::gates::poseidon_mds::PoseidonMdsGate;
use plonky2::gates::public_input::PublicInputGate;
use plonky2::gates::random_access::RandomAccessGate;
use plonky2::gates::reducing::ReducingGate;
use plonky2::gates::reducing_extension::ReducingExtensionGate;
use plonky2::gates::util::StridedConstraintConsumer;
use plonky2::hash::hash_types::{HashOut, HashOutTarget};
use plonky2::iop::ext_target::ExtensionTarget;
use plonky2::iop::generator::{ConstantGenerator, GeneratedValues, SimpleGenerator, WitnessGeneratorRef};
use plonky2::iop::target::Target;
use plonky2::iop::witness::{PartialWitness, PartitionWitness, Witness, WitnessWrite};
use plonky2::plonk::circuit_builder::CircuitBuilder;
use plonky2::plonk::circuit_data::{CircuitConfig, MockCircuitData};
use plonky2::plonk::config::PoseidonGoldilocksConfig;
use plonky2::plonk::vars::{EvaluationTargets, EvaluationVars, EvaluationVarsBaseBatch};
use serde_json::json;

use crate::c13::{ref_constants, ref_mds};
use crate::core::*;

const D: usize = 2;
type FE = QuadraticExtension<F>;
type C = PoseidonGoldilocksConfig;
type E = [u64; 2];
const W: u64 = 7; // F_p[X]/(X^2 - 7)

// ---------------------------------------------------------------------------------------------
// Reference arithmetic in the quadratic extension (harness-side, u128 mod p).

fn emul(a: E, b: E) -> E {
    [addm(mulm(a[0], b[0]), mulm(W, mulm(a[1], b[1]))), addm(mulm(a[0], b[1]), mulm(a[1], b[0]))]
}
fn eadd(a: E, b: E) -> E {
    [addm(a[0], b[0]), addm(a[1], b[1])]
}
fn esub(a: E, b: E) -> E {
    [subm(a[0], b[0]), subm(a[1], b[1])]
}
fn escal(a: E, s: u64) -> E {
    [mulm(a[0], s), mulm(a[1], s)]
}
fn einv(a: E) -> Option<E> {
    let n = subm(mulm(a[0], a[0]), mulm(W, mulm(a[1], a[1])));
    let ni = invm(n)?;
    Some([mulm(a[0], ni), mulm(negm(a[1]), ni)])
}
fn fe(x: E) -> FE {
    QuadraticExtension([F(x[0]), F(x[1])])
}
fn ue(x: FE) -> E {
    [x.0[0].0 % P, x.0[1].0 % P]
}

// ---------------------------------------------------------------------------------------------
// Gate models: wire layout (written independently of the crate-private helpers), input contracts
// and the function the generators are supposed to compute.

#[derive(Clone, Copy, PartialEq, Debug)]
enum Dom {
    Any,
    Bool,
    Below(u128),
    Nonzero,
}

#[derive(Clone, Debug)]
enum Sem {
    Arith { ops: usize },
    ArithExt { ops: usize },
    MulExt { ops: usize },
    BaseSum { b: u64, limbs: usize },
    Constant { n: usize },
    Coset { bits: usize, degree: usize },
    Exp { bits: usize },
    Poseidon,
    PoseidonMds,
    PublicInput,
    RandomAccess { bits: usize, copies: usize, extra: usize },
    Reducing { n: usize },
    ReducingExt { n: usize },
}

struct Model {
    kind: String,
    name: String,
    gate: GateRef<F, D>,
    sem: Sem,
    /// (wire, contract) of every input wire, ascending.
    inputs: Vec<(usize, Dom)>,
    /// indices into `inputs`, one group per operation slot.
    groups: Vec<Vec<usize>>,
    /// (wire, role) of every wire the generators must write, ascending.
    written: Vec<(usize, &'static str)>,
    /// PublicInputGate: wires 0..4 are filled by copy constraints with the public-input hash.
    pih_wires: bool,
    quick: bool,
}

fn model(kind: &str, params: String, gate: GateRef<F, D>, sem: Sem, quick: bool) -> Model {
    let mut inputs: Vec<(usize, Dom)> = Vec::new();
    let mut groups: Vec<Vec<usize>> = Vec::new();
    let mut written: Vec<(usize, &'static str)> = Vec::new();
    let mut pih_wires = false;
    // helper: push a group of input wires
    let mut group = |inputs: &mut Vec<(usize, Dom)>, ws: Vec<(usize, Dom)>| {
        let start = inputs.len();
        inputs.extend(ws);
        groups.push((start..inputs.len()).collect());
    };
    match &sem {
        Sem::Arith { ops } => {
            for i in 0..*ops {
                group(&mut inputs, (0..3).map(|k| (4 * i + k, Dom::Any)).collect());
                written.push((4 * i + 3, "output"));
            }
        }
        Sem::ArithExt { ops } => {
            for i in 0..*ops {
                group(&mut inputs, (0..6).map(|k| (8 * i + k, Dom::Any)).collect());
                written.push((8 * i + 6, "output"));
                written.push((8 * i + 7, "output"));
            }
        }
        Sem::MulExt { ops } => {
            for i in 0..*ops {
                group(&mut inputs, (0..4).map(|k| (6 * i + k, Dom::Any)).collect());
                written.push((6 * i + 4, "output"));
                written.push((6 * i + 5, "output"));
            }
        }
        Sem::BaseSum { b, limbs } => {
            let bound = (*b as u128).checked_pow(*limbs as u32).unwrap_or(u128::MAX);
            group(&mut inputs, vec![(0, Dom::Below(bound.min(P as u128)))]);
            for i in 0..*limbs {
                written.push((1 + i, "limb"));
            }
        }
        Sem::Constant { n } => {
            for i in 0..*n {
                written.push((i, "constant-output"));
            }
        }
        Sem::Coset { bits, degree } => {
            let n = 1usize << bits;
            let mut ws = vec![(0, Dom::Nonzero)];
            ws.extend((1..1 + 2 * n + 2).map(|w| (w, Dom::Any)));
            group(&mut inputs, ws);
            let ev = 3 + 2 * n;
            written.push((ev, "evaluation_value"));
            written.push((ev + 1, "evaluation_value"));
            let s = 5 + 2 * n;
            let ni = (n - 2) / (degree - 1);
            for i in 0..ni {
                written.push((s + 2 * i, "intermediate_eval"));
                written.push((s + 2 * i + 1, "intermediate_eval"));
            }
            for i in 0..ni {
                written.push((s + 2 * (ni + i), "intermediate_prod"));
                written.push((s + 2 * (ni + i) + 1, "intermediate_prod"));
            }
            written.push((s + 4 * ni, "shifted_evaluation_point"));
            written.push((s + 4 * ni + 1, "shifted_evaluation_point"));
        }
        Sem::Exp { bits } => {
            let mut ws = vec![(0, Dom::Any)];
            ws.extend((0..*bits).map(|i| (1 + i, Dom::Bool)));
            group(&mut inputs, ws);
            written.push((1 + bits, "output"));
            for i in 0..*bits {
                written.push((2 + bits + i, "intermediate_value"));
            }
        }
        Sem::Poseidon => {
            let mut ws: Vec<(usize, Dom)> = (0..12).map(|i| (i, Dom::Any)).collect();
            ws.push((24, Dom::Bool));
            group(&mut inputs, ws);
            for i in 12..24 {
                written.push((i, "output"));
            }
            for i in 25..29 {
                written.push((i, "delta"));
            }
            for i in 29..65 {
                written.push((i, "full_sbox_0"));
            }
            for i in 65..87 {
                written.push((i, "partial_sbox"));
            }
            for i in 87..135 {
                written.push((i, "full_sbox_1"));
            }
        }
        Sem::PoseidonMds => {
            group(&mut inputs, (0..24).map(|i| (i, Dom::Any)).collect());
            for i in 24..48 {
                written.push((i, "output"));
            }
        }
        Sem::PublicInput => {
            group(&mut inputs, (0..4).map(|i| (i, Dom::Any)).collect());
            pih_wires = true;
        }
        Sem::RandomAccess { bits, copies, extra } => {
            let vs = 1usize << bits;
            let routed = (2 + vs) * copies + extra;
            for c in 0..*copies {
                let base = (2 + vs) * c;
                let mut ws = vec![(base, Dom::Below(vs as u128))];
                ws.extend((0..vs).map(|i| (base + 2 + i, Dom::Any)));
                group(&mut inputs, ws);
                written.push((base + 1, "claimed_element"));
            }
            for i in 0..*extra {
                written.push(((2 + vs) * copies + i, "extra_constant"));
            }
            for c in 0..*copies {
                for i in 0..*bits {
                    written.push((routed + c * bits + i, "bit"));
                }
            }
        }
        Sem::Reducing { n } => {
            group(&mut inputs, (2..6 + n).map(|w| (w, Dom::Any)).collect());
            written.push((0, "output"));
            written.push((1, "output"));
            for i in 0..(n - 1) {
                written.push((6 + n + 2 * i, "acc"));
                written.push((6 + n + 2 * i + 1, "acc"));
            }
        }
        Sem::ReducingExt { n } => {
            group(&mut inputs, (2..6 + 2 * n).map(|w| (w, Dom::Any)).collect());
            written.push((0, "output"));
            written.push((1, "output"));
            for i in 0..(n - 1) {
                written.push((6 + 2 * n + 2 * i, "acc"));
                written.push((6 + 2 * n + 2 * i + 1, "acc"));
            }
        }
    }
    drop(group);
    written.sort();
    Model { kind: kind.to_string(), name: format!("{kind}{{{params}}}"), gate, sem, inputs, groups, written, pih_wires, quick }
}

fn cfg(num_wires: usize, num_routed_wires: usize) -> CircuitConfig {
    CircuitConfig { num_wires, num_routed_wires, ..CircuitConfig::standard_recursion_config() }
}

/// (label, config) — the widths of the configuration lattice; only `new_from_config` reads them.
fn widths() -> Vec<(&'static str, CircuitConfig)> {
    vec![
        ("std135/80", CircuitConfig::standard_recursion_config()),
        ("wide234/80", CircuitConfig::wide_ecc_config()),
        ("135/25", cfg(135, 25)),
        ("143/100", cfg(143, 100)),
        ("234/136", cfg(234, 136)),
    ]
}

fn coset_gate(bits: usize, max_degree: usize) -> (CosetInterpolationGate<F, D>, usize) {
    // `with_max_degree` is crate-private; `new` + the public `degree` field gives the same gate
    // (the barycentric weights do not depend on the degree).
    let n = 1usize << bits;
    let n_intermediates = (n - 2) / (max_degree - 1);
    let degree = (n - 2) / (n_intermediates + 1) + 2;
    let mut g = CosetInterpolationGate::<F, D>::new(bits);
    g.degree = degree;
    (g, degree)
}

fn base_sum<const B: usize>(limbs: usize, quick: bool) -> Model {
    model(&format!("BaseSumGate<{B}>"), format!("limbs={limbs}"), GateRef::new(BaseSumGate::<B>::new(limbs)), Sem::BaseSum { b: B as u64, limbs }, quick)
}

fn catalogue() -> Vec<Model> {
    let mut v: Vec<Model> = Vec::new();
    let ws = widths();
    let mut seen: BTreeSet<String> = BTreeSet::new();
    let mut add = |v: &mut Vec<Model>, m: Model| {
        if seen.insert(m.name.clone()) {
            v.push(m);
        } else if m.quick {
            // same gate reached through another parameter route: keep one copy, in the quick tier
            v.iter_mut().find(|x| x.name == m.name).unwrap().quick = true;
        }
    };
    // arithmetic family: 1, 2 and the per-width maxima
    let mut ops_a = vec![(1usize, true), (2, false)];
    let mut ops_e = vec![(1usize, true), (2, false)];
    let mut ops_m = vec![(1usize, true), (2, false)];
    for (i, (_, c)) in ws.iter().enumerate() {
        ops_a.push((ArithmeticGate::new_from_config(c).num_ops, i == 0));
        ops_e.push((ArithmeticExtensionGate::<D>::new_from_config(c).num_ops, i == 0));
        ops_m.push((MulExtensionGate::<D>::new_from_config(c).num_ops, i == 0));
    }
    for (ops, q) in ops_a {
        add(&mut v, model("ArithmeticGate", format!("num_ops={ops}"), GateRef::new(ArithmeticGate { num_ops: ops }), Sem::Arith { ops }, q));
    }
    for (ops, q) in ops_e {
        add(&mut v, model("ArithmeticExtensionGate", format!("num_ops={ops}"), GateRef::new(ArithmeticExtensionGate::<D> { num_ops: ops }), Sem::ArithExt { ops }, q));
    }
    for (ops, q) in ops_m {
        add(&mut v, model("MulExtensionGate", format!("num_ops={ops}"), GateRef::new(MulExtensionGate::<D> { num_ops: ops }), Sem::MulExt { ops }, q));
    }
    for limbs in [1usize, 2, 8, 32, 63, 64] {
        let q = limbs == 1 || limbs == 63;
        add(&mut v, base_sum::<2>(limbs, q));
        if limbs != 64 {
            add(&mut v, base_sum::<3>(limbs, limbs == 2));
            add(&mut v, base_sum::<4>(limbs, limbs == 32));
        }
    }
    for n in 1..=4usize {
        add(&mut v, model("ConstantGate", format!("num_consts={n}"), GateRef::new(ConstantGate::new(n)), Sem::Constant { n }, n <= 2));
    }
    for bits in 1..=4usize {
        for max_degree in 2..=(1usize << bits) {
            let (g, degree) = coset_gate(bits, max_degree);
            let q = max_degree == (1 << bits) || (bits == 4 && max_degree == 8) || (bits == 2 && max_degree == 2);
            add(&mut v, model("CosetInterpolationGate", format!("subgroup_bits={bits},degree={degree}"), GateRef::new(g), Sem::Coset { bits, degree }, q));
        }
    }
    let mut exp_bits = vec![(1usize, true), (2, false), (8, true)];
    for (i, (_, c)) in ws.iter().enumerate() {
        exp_bits.push((ExponentiationGate::<F, D>::new_from_config(c).num_power_bits, i == 0));
    }
    for (bits, q) in exp_bits {
        add(&mut v, model("ExponentiationGate", format!("num_power_bits={bits}"), GateRef::new(ExponentiationGate::<F, D>::new(bits)), Sem::Exp { bits }, q));
    }
    add(&mut v, model("PoseidonGate", String::new(), GateRef::new(PoseidonGate::<F, D>::new()), Sem::Poseidon, true));
    add(&mut v, model("PoseidonMdsGate", String::new(), GateRef::new(PoseidonMdsGate::<F, D>::new()), Sem::PoseidonMds, true));
    add(&mut v, model("PublicInputGate", String::new(), GateRef::new(PublicInputGate), Sem::PublicInput, true));
    let mut ra: Vec<(RandomAccessGate<F, D>, bool)> = Vec::new();
    for bits in [1usize, 2, 4, 6] {
        for (i, (_, c)) in ws.iter().enumerate() {
            ra.push((RandomAccessGate::<F, D>::new_from_config(c, bits), i == 0 && bits != 2));
        }
    }
    // `new` is private; Default + public fields reaches hand-chosen shapes
    for (bits, copies, extra) in [(1usize, 1usize, 0usize), (2, 3, 2), (3, 2, 1)] {
        let mut g = RandomAccessGate::<F, D>::default();
        g.bits = bits;
        g.num_copies = copies;
        g.num_extra_constants = extra;
        ra.push((g, bits == 1));
    }
    for (g, q) in ra {
        if g.num_copies == 0 || g.bits == 0 {
            continue; // the gate does not exist for this width (num_wires() underflows)
        }
        let (bits, copies, extra) = (g.bits, g.num_copies, g.num_extra_constants);
        add(&mut v, model("RandomAccessGate", format!("bits={bits},copies={copies},extra={extra}"), GateRef::new(g), Sem::RandomAccess { bits, copies, extra }, q));
    }
    let mut red = vec![(1usize, true), (2, false)];
    let mut rede = vec![(1usize, true), (2, false)];
    for (i, (_, c)) in ws.iter().enumerate() {
        if c.num_routed_wires > 3 * D + 1 {
            red.push((ReducingGate::<D>::max_coeffs_len(c.num_wires, c.num_routed_wires), i == 0));
            rede.push((ReducingExtensionGate::<D>::max_coeffs_len(c.num_wires, c.num_routed_wires), i == 0));
        }
    }
    for (n, q) in red {
        add(&mut v, model("ReducingGate", format!("num_coeffs={n}"), GateRef::new(ReducingGate::<D>::new(n)), Sem::Reducing { n }, q));
    }
    for (n, q) in rede {
        add(&mut v, model("ReducingExtensionGate", format!("num_coeffs={n}"), GateRef::new(ReducingExtensionGate::<D>::new(n)), Sem::ReducingExt { n }, q));
    }
    v
}

// ---------------------------------------------------------------------------------------------
// Reference semantics: what the written wires must hold, from the documented meaning of each gate.

fn rd(row: &[u64], w: usize) -> E {
    [row[w], row[w + 1]]
}
fn put(out: &mut Vec<(usize, u64)>, w: usize, v: E) {
    out.push((w, v[0]));
    out.push((w + 1, v[1]));
}

/// Textbook Poseidon with the S-box inputs of every round recorded (round, lane) -> value.
fn poseidon_trace(input: &[u64; 12]) -> (Vec<[u64; 12]>, [u64; 12]) {
    let mut s = *input;
    let mut sbox_in = Vec::new();
    for round in 0..30 {
        s = ref_constants(&s, round);
        sbox_in.push(s);
        if (4..26).contains(&round) {
            s[0] = powm(s[0], 7);
        } else {
            for x in s.iter_mut() {
                *x = powm(*x, 7);
            }
        }
        s = ref_mds(&s);
    }
    (sbox_in, s)
}

fn reference(sem: &Sem, consts: &[u64], row: &[u64]) -> Vec<(usize, u64)> {
    let mut out = Vec::new();
    match sem {
        Sem::Arith { ops } => {
            for i in 0..*ops {
                let v = addm(mulm(mulm(row[4 * i], row[4 * i + 1]), consts[0]), mulm(row[4 * i + 2], consts[1]));
                out.push((4 * i + 3, v));
            }
        }
        Sem::ArithExt { ops } => {
            for i in 0..*ops {
                let b = 8 * i;
                let v = eadd(escal(emul(rd(row, b), rd(row, b + 2)), consts[0]), escal(rd(row, b + 4), consts[1]));
                put(&mut out, b + 6, v);
            }
        }
        Sem::MulExt { ops } => {
            for i in 0..*ops {
                let b = 6 * i;
                put(&mut out, b + 4, escal(emul(rd(row, b), rd(row, b + 2)), consts[0]));
            }
        }
        Sem::BaseSum { b, limbs } => {
            let mut x = row[0];
            for i in 0..*limbs {
                out.push((1 + i, x % b));
                x /= b;
            }
        }
        Sem::Constant { n } => {
            for i in 0..*n {
                out.push((i, consts[i]));
            }
        }
        Sem::Coset { bits, degree } => {
            let n = 1usize << bits;
            let g = F::primitive_root_of_unity(*bits).0 % P;
            let xs: Vec<u64> = (0..n).map(|i| powm(g, i as u128)).collect();
            let vals: Vec<E> = (0..n).map(|i| rd(row, 1 + 2 * i)).collect();
            let point = rd(row, 1 + 2 * n);
            let z = escal(point, invm(row[0]).expect("shift is non-zero in contract"));
            // direct Lagrange formula: sum_j v_j prod_{k != j} (z - x_k) / (x_j - x_k)
            let mut acc: E = [0, 0];
            for j in 0..n {
                let mut num: E = [1, 0];
                let mut den = 1u64;
                for k in 0..n {
                    if k != j {
                        num = emul(num, esub(z, [xs[k], 0]));
                        den = mulm(den, subm(xs[j], xs[k]));
                    }
                }
                acc = eadd(acc, escal(emul(vals[j], num), invm(den).unwrap()));
            }
            put(&mut out, 3 + 2 * n, acc);
            // documented recurrences p[i], e[i]; the wires hold p[k], e[k] at k = d, d + (d-1), ...
            let wts: Vec<u64> = (0..n)
                .map(|j| invm((0..n).filter(|k| *k != j).fold(1u64, |a, k| mulm(a, subm(xs[j], xs[k])))).unwrap())
                .collect();
            let s = 5 + 2 * n;
            let ni = (n - 2) / (degree - 1);
            let (mut e, mut p): (E, E) = ([0, 0], [1, 0]);
            for i in 0..n {
                let k = i; // state after consuming points 0..i
                if k >= *degree && (k - degree) % (degree - 1) == 0 && (k - degree) / (degree - 1) < ni {
                    let idx = (k - degree) / (degree - 1);
                    put(&mut out, s + 2 * idx, e);
                    put(&mut out, s + 2 * (ni + idx), p);
                }
                let term = esub(z, [xs[i], 0]);
                e = eadd(emul(e, term), emul(escal(vals[i], wts[i]), p));
                p = emul(p, term);
            }
            put(&mut out, s + 4 * ni, z);
        }
        Sem::Exp { bits } => {
            let mut e: u128 = 0;
            for j in 0..*bits {
                if row[1 + j] == 1 {
                    e |= 1u128 << j;
                }
            }
            out.push((1 + bits, powm(row[0], e)));
            for i in 0..*bits {
                out.push((2 + bits + i, powm(row[0], e >> (bits - 1 - i))));
            }
        }
        Sem::Poseidon => {
            let mut st = [0u64; 12];
            st.copy_from_slice(&row[0..12]);
            let swap = row[24];
            for i in 0..4 {
                out.push((25 + i, mulm(swap, subm(st[i + 4], st[i]))));
            }
            if swap == 1 {
                for i in 0..4 {
                    st.swap(i, i + 4);
                }
            }
            let (sbox_in, res) = poseidon_trace(&st);
            for i in 0..12 {
                out.push((12 + i, res[i]));
            }
            for r in 1..4 {
                for i in 0..12 {
                    out.push((29 + 12 * (r - 1) + i, sbox_in[r][i]));
                }
            }
            for r in 0..4 {
                for i in 0..12 {
                    out.push((87 + 12 * r + i, sbox_in[26 + r][i]));
                }
            }
            // partial rounds: the gate uses the factored ("fast") partial rounds whose lane-0 S-box
            // input differs from the textbook state by a linear change of variables; only the first
            // partial round's input is representation-independent.
        }
        Sem::PoseidonMds => {
            for c in 0..2 {
                let mut st = [0u64; 12];
                for i in 0..12 {
                    st[i] = row[2 * i + c];
                }
                let r = ref_mds(&st);
                for i in 0..12 {
                    out.push((24 + 2 * i + c, r[i]));
                }
            }
        }
        Sem::PublicInput => {}
        Sem::RandomAccess { bits, copies, extra } => {
            let vs = 1usize << bits;
            let routed = (2 + vs) * copies + extra;
            for c in 0..*copies {
                let base = (2 + vs) * c;
                let idx = row[base] as usize;
                out.push((base + 1, row[base + 2 + idx]));
                for i in 0..*bits {
                    out.push((routed + c * bits + i, ((idx >> i) & 1) as u64));
                }
            }
            for i in 0..*extra {
                out.push(((2 + vs) * copies + i, consts[i]));
            }
        }
        Sem::Reducing { n } => {
            let alpha = rd(row, 2);
            let mut acc = rd(row, 4);
            for i in 0..*n {
                acc = eadd(emul(acc, alpha), [row[6 + i], 0]);
                put(&mut out, if i == n - 1 { 0 } else { 6 + n + 2 * i }, acc);
            }
        }
        Sem::ReducingExt { n } => {
            let alpha = rd(row, 2);
            let mut acc = rd(row, 4);
            for i in 0..*n {
                acc = eadd(emul(acc, alpha), rd(row, 6 + 2 * i));
                put(&mut out, if i == n - 1 { 0 } else { 6 + 2 * n + 2 * i }, acc);
            }
        }
    }
    out
}

// ---------------------------------------------------------------------------------------------
// Input enumeration (all in-contract): exhaustive product per operation slot when it fits, else
// base vectors with at most two coordinates deviating.

fn e4() -> Vec<u64> {
    vec![0, 1, 2, P - 1]
}
fn e3() -> Vec<u64> {
    vec![0, 1, P - 1]
}

fn boundary_below(n: u128) -> Vec<u64> {
    // members of [0, n): small values, alphabet members and the top of the range
    let mut v: Vec<u64> = (0..8u64).collect();
    v.extend(a24());
    for k in 1..=3u128 {
        if n >= k {
            v.push((n - k) as u64);
        }
    }
    v.push((n / 2) as u64);
    for b in [2u128, 3] {
        let mut x = 1u128;
        while x < n {
            v.push(x as u64);
            v.push((x - 1) as u64);
            x *= b;
        }
    }
    dedup(v.into_iter().filter(|x| (*x as u128) < n && *x < P).collect())
}

fn dom_values(d: Dom, al: &[u64]) -> Vec<u64> {
    match d {
        Dom::Any => al.to_vec(),
        Dom::Bool => vec![0, 1],
        Dom::Below(n) => {
            if n <= 64 {
                (0..n as u64).collect()
            } else {
                boundary_below(n)
            }
        }
        Dom::Nonzero => {
            let v: Vec<u64> = al.iter().copied().filter(|x| *x != 0).collect();
            if v.is_empty() {
                vec![1]
            } else {
                v
            }
        }
    }
}

/// Out-of-contract values of a constrained input.
fn dom_outside(d: Dom) -> Vec<u64> {
    match d {
        Dom::Any => vec![],
        Dom::Bool => vec![2, P - 1, 1 << 32],
        Dom::Below(n) => dedup([n, n + 1, n + 7, (P - 1) as u128, 1u128 << 63].iter().filter(|x| **x >= n && **x < P as u128).map(|x| *x as u64).collect()),
        Dom::Nonzero => vec![0],
    }
}

fn base_vectors(m: &Model) -> Vec<Vec<u64>> {
    let mut bases = vec![Vec::new(), Vec::new(), Vec::new()];
    for (j, (_, d)) in m.inputs.iter().enumerate() {
        let j = j as u64;
        let (a, b, c) = match *d {
            Dom::Any => (0, j + 2, P - 1 - j),
            Dom::Bool => (0, 1, j % 2),
            Dom::Below(n) => (0, (n - 1) as u64, ((n - 1) / 2) as u64),
            Dom::Nonzero => (1, 7, P - 1),
        };
        bases[0].push(a);
        bases[1].push(b);
        bases[2].push(c);
    }
    bases
}

enum Plan {
    /// per-slot exhaustive product: domain values per input, and the common period
    Product { doms: Vec<Vec<u64>>, n: usize, alphabet: &'static str },
    /// base vectors with <= 2 deviating coordinates, indexed lazily: per base vector one undeviated
    /// row, then the single deviations, then the pair blocks (i < j) in lexicographic order.
    Deviation { bases: Vec<Vec<u64>>, singles: Vec<Vec<u64>>, single_start: Vec<usize>, pairs: Vec<Vec<u64>>, blocks: Vec<(usize, usize, usize)>, per_base: usize, pair_alphabet: &'static str },
}

impl Plan {
    fn len(&self) -> usize {
        match self {
            Plan::Product { n, .. } => *n,
            Plan::Deviation { bases, per_base, .. } => bases.len() * per_base,
        }
    }
    fn get(&self, m: &Model, t: usize) -> Vec<u64> {
        match self {
            Plan::Product { doms, n, .. } => {
                let mut vals = vec![0u64; m.inputs.len()];
                for (g, grp) in m.groups.iter().enumerate() {
                    // every slot sees every tuple once as t runs over 0..n; slots are de-correlated
                    let size: usize = grp.iter().map(|i| doms[*i].len()).product();
                    let mut idx = (t + 37 * g) % n % size;
                    for i in grp {
                        let dv = &doms[*i];
                        vals[*i] = dv[idx % dv.len()];
                        idx /= dv.len();
                    }
                }
                vals
            }
            Plan::Deviation { bases, singles, single_start, pairs, blocks, per_base, .. } => {
                let mut vals = bases[t / per_base].clone();
                let r = t % per_base;
                let n_single = *single_start.last().unwrap();
                if r == 0 {
                } else if r - 1 < n_single {
                    let q = r - 1;
                    let i = single_start.partition_point(|s| *s <= q) - 1;
                    vals[i] = singles[i][q - single_start[i]];
                } else {
                    let q = r - 1 - n_single;
                    let bi = blocks.partition_point(|(_, _, s)| *s <= q) - 1;
                    let (i, j, s) = blocks[bi];
                    let off = q - s;
                    vals[i] = pairs[i][off / pairs[j].len()];
                    vals[j] = pairs[j][off % pairs[j].len()];
                }
                vals
            }
        }
    }
    fn describe(&self) -> String {
        match self {
            Plan::Product { n, alphabet, .. } => format!("product/{alphabet}/{n}"),
            Plan::Deviation { pair_alphabet, .. } => format!("deviation<=2/singles=A24,pairs={pair_alphabet}/{}", self.len()),
        }
    }
}

fn plan(m: &Model, thorough: bool) -> Plan {
    let cap: usize = if thorough { 32768 } else { 4096 };
    let alphabets: [(&'static str, Vec<u64>); 3] = [("A8", a8()), ("E4", e4()), ("E3", e3())];
    if m.inputs.is_empty() {
        return Plan::Product { doms: vec![], n: 1, alphabet: "-" };
    }
    for (name, al) in alphabets.iter() {
        let doms: Vec<Vec<u64>> = m.inputs.iter().map(|(_, d)| dom_values(*d, al)).collect();
        let mut fits = true;
        let mut n = 1usize;
        for grp in &m.groups {
            let mut size = 1usize;
            for i in grp {
                size = size.saturating_mul(doms[*i].len());
            }
            if size > cap {
                fits = false;
            }
            n = n.max(size);
        }
        if fits {
            return Plan::Product { doms, n, alphabet: name };
        }
    }
    // deviation plan: the largest pair alphabet whose row count fits the tier's cap
    let bases = base_vectors(m);
    let row_cap: usize = if thorough { 110_000 } else { 40_000 };
    let k = m.inputs.len();
    let pair_choices: Vec<(&'static str, Vec<u64>)> = if thorough {
        vec![("A24", a24()), ("A8", a8()), ("E3", e3()), ("E2={0,p-1}", vec![0, P - 1])]
    } else {
        vec![("E3", e3()), ("E2={0,p-1}", vec![0, P - 1]), ("none(single deviations only)", vec![])]
    };
    let singles: Vec<Vec<u64>> = m.inputs.iter().map(|(_, d)| dom_values(*d, &a24())).collect();
    let mut single_start = vec![0usize];
    for s in &singles {
        single_start.push(single_start.last().unwrap() + s.len());
    }
    let n_single = *single_start.last().unwrap();
    let mut result = None;
    for (name, al) in pair_choices {
        let pairs: Vec<Vec<u64>> = m.inputs.iter().map(|(_, d)| if al.is_empty() { vec![] } else { dom_values(*d, &al) }).collect();
        let mut blocks = Vec::new();
        let mut cum = 0usize;
        for i in 0..k {
            for j in (i + 1)..k {
                if pairs[i].len() * pairs[j].len() > 0 {
                    blocks.push((i, j, cum));
                    cum += pairs[i].len() * pairs[j].len();
                }
            }
        }
        let per_base = 1 + n_single + cum;
        let rows = per_base * bases.len();
        let cost = rows as u128 * m.written.len().max(1) as u128 * m.gate.0.num_constraints() as u128;
        let fits = rows <= row_cap && cost <= 1_700_000_000;
        result = Some(Plan::Deviation { bases: bases.clone(), singles: singles.clone(), single_start: single_start.clone(), pairs, blocks, per_base, pair_alphabet: name });
        if fits {
            break;
        }
    }
    result.unwrap()
}

/// Constant vectors: A8^k (thorough only), else {1, 0, p-1, 2^32}^k, else three fixed vectors —
/// the first whose crossed row count stays within the tier's budget.
fn const_sets(nc: usize, thorough: bool, n_inputs: usize) -> Vec<Vec<u64>> {
    if nc == 0 {
        return vec![vec![]];
    }
    let budget: usize = if thorough { 100_000 } else { 70_000 };
    let mut alphabets: Vec<Vec<u64>> = vec![vec![1, 0, P - 1, 1 << 32]];
    if thorough {
        alphabets.insert(0, a8());
    }
    for al in alphabets {
        let n = al.len().checked_pow(nc as u32).unwrap_or(usize::MAX);
        if n <= 4096 && n.saturating_mul(n_inputs) <= budget {
            return (0..n)
                .map(|mut t| {
                    (0..nc)
                        .map(|_| {
                            let v = al[t % al.len()];
                            t /= al.len();
                            v
                        })
                        .collect()
                })
                .collect();
        }
    }
    let pool = [1u64, 0, P - 1, 1 << 32, 2];
    (0..3).map(|k| (0..nc).map(|j| pool[(k + 2 * j * k + j) % pool.len()]).collect()).collect()
}

// ---------------------------------------------------------------------------------------------
// Driving one row with the gate's own generators, and the evaluators.

struct Driven {
    /// canonical value of every wire (unset wires carry a recognisable filler)
    row: Vec<u64>,
    written: Vec<usize>,
    watched: Vec<usize>,
}

fn filler(j: usize) -> u64 {
    P - 7 - 2 * j as u64
}

/// Runs `gate.generators(0, consts)` (plus the builder's ConstantGenerators for
/// `extra_constant_wires`) on a one-row PartitionWitness with the identity representative map.
fn drive(m: &Model, consts: &[u64], vals: &[u64]) -> Result<Driven, String> {
    let gate = &m.gate.0;
    let nw = gate.num_wires();
    let rep: Vec<usize> = (0..nw).collect();
    let mut w = PartitionWitness::<F>::new(nw, 1, &rep);
    for ((wire, _), v) in m.inputs.iter().zip(vals) {
        w.set_target(Target::wire(0, *wire), F(*v)).map_err(|e| format!("setting input wire {wire}: {e}"))?;
    }
    let cf: Vec<F> = consts.iter().map(|c| F(*c)).collect();
    let mut gens: Vec<WitnessGeneratorRef<F, D>> = gate.generators(0, &cf);
    for (ci, wi) in gate.extra_constant_wires() {
        gens.push(WitnessGeneratorRef::new(ConstantGenerator { row: 0, constant_index: ci, wire_index: wi, constant: cf[ci] }.adapter()));
    }
    let mut watched: BTreeSet<usize> = BTreeSet::new();
    for g in &gens {
        for t in g.0.watch_list() {
            match t {
                Target::Wire(wire) if wire.row == 0 => {
                    watched.insert(wire.column);
                }
                other => return Err(format!("generator {} watches {other:?}, outside the row", g.0.id())),
            }
        }
    }
    let mut done = vec![false; gens.len()];
    let mut written: BTreeSet<usize> = BTreeSet::new();
    loop {
        let mut progress = false;
        for (i, g) in gens.iter().enumerate() {
            if done[i] {
                continue;
            }
            let mut buf = GeneratedValues::<F>::empty();
            let finished = g.0.run(&w, &mut buf);
            for (t, v) in buf.target_values.drain(..) {
                match t {
                    Target::Wire(wire) if wire.row == 0 && wire.column < nw => {
                        written.insert(wire.column);
                    }
                    other => return Err(format!("generator {} wrote {other:?}, outside the row's num_wires()={nw}", g.0.id())),
                }
                w.set_target(t, v).map_err(|e| format!("generator {} conflicts: {e}", g.0.id()))?;
                progress = true;
            }
            if finished {
                done[i] = true;
                progress = true;
            }
        }
        if done.iter().all(|d| *d) {
            break;
        }
        if !progress {
            return Err("generators-stalled".to_string());
        }
    }
    let row: Vec<u64> = (0..nw).map(|j| w.try_get_target(Target::wire(0, j)).map(|x| x.0 % P).unwrap_or_else(|| filler(j))).collect();
    Ok(Driven { row, written: written.into_iter().collect(), watched: watched.into_iter().collect() })
}

fn pih_of(v: [u64; 4]) -> HashOut<F> {
    HashOut { elements: [F(v[0]), F(v[1]), F(v[2]), F(v[3])] }
}

fn eval_ext(m: &Model, wires: &[FE], consts: &[FE], pih: &HashOut<F>) -> Result<Vec<FE>, String> {
    let r = m.gate.0.eval_unfiltered(EvaluationVars { local_constants: consts, local_wires: wires, public_inputs_hash: pih });
    let n = m.gate.0.num_constraints();
    if r.len() != n {
        return Err(format!("eval_unfiltered returned {} constraints, num_constraints() = {n}", r.len()));
    }
    Ok(r)
}

/// `rows[i]` = (wires, consts) of evaluation point i; returns per-point constraint vectors.
fn eval_batch(m: &Model, rows: &[(&[u64], &[u64])], pih: &HashOut<F>) -> Vec<Vec<u64>> {
    let b = rows.len();
    let nw = rows[0].0.len();
    let nc = rows[0].1.len();
    let mut wf = vec![F::ZERO; nw * b];
    let mut cf = vec![F::ZERO; nc * b];
    for (i, (wr, cr)) in rows.iter().enumerate() {
        for j in 0..nw {
            wf[j * b + i] = F(wr[j]);
        }
        for j in 0..nc {
            cf[j * b + i] = F(cr[j]);
        }
    }
    let res = m.gate.0.eval_unfiltered_base_batch(EvaluationVarsBaseBatch::new(b, &cf, &wf, pih));
    let n = res.len() / b;
    (0..b).map(|i| (0..n).map(|j| res[j * b + i].0 % P).collect()).collect()
}

const SENTINEL: u64 = 0x5EED_5EED_5EED_5EED;

fn eval_base_one(m: &Model, wires: &[u64], consts: &[u64], pih: &HashOut<F>) -> Result<Vec<u64>, String> {
    let n = m.gate.0.num_constraints();
    let wf: Vec<F> = wires.iter().map(|x| F(*x)).collect();
    let cf: Vec<F> = consts.iter().map(|x| F(*x)).collect();
    let mut res = vec![F(SENTINEL); n];
    let batch = EvaluationVarsBaseBatch::new(1, &cf, &wf, pih);
    guarded(|| m.gate.0.eval_unfiltered_base_one(batch.view(0), StridedConstraintConsumer::new(&mut res, 1, 0)))?;
    Ok(res.iter().map(|x| x.0 % P).collect())
}

/// The gate's `eval_unfiltered_circuit`, built once; evaluated per row by witness generation only.
struct Circ {
    data: MockCircuitData<F, C, D>,
    wires_t: Vec<ExtensionTarget<D>>,
    consts_t: Vec<ExtensionTarget<D>>,
    pih_t: HashOutTarget,
    outs: Vec<ExtensionTarget<D>>,
}

fn build_circ(m: &Model, config: CircuitConfig) -> Result<Circ, String> {
    guarded(|| {
        let mut builder = CircuitBuilder::<F, D>::new(config);
        let wires_t = builder.add_virtual_extension_targets(m.gate.0.num_wires());
        let consts_t = builder.add_virtual_extension_targets(m.gate.0.num_constants());
        let pih_t = builder.add_virtual_hash();
        let outs = m.gate.0.eval_unfiltered_circuit(&mut builder, EvaluationTargets { local_constants: &consts_t, local_wires: &wires_t, public_inputs_hash: &pih_t });
        let data = builder.mock_build::<C>();
        Circ { data, wires_t, consts_t, pih_t, outs }
    })
}

fn eval_circ(c: &Circ, wires: &[FE], consts: &[FE], pih: &HashOut<F>) -> Result<Vec<E>, String> {
    guarded(|| {
        let mut pw = PartialWitness::<F>::new();
        pw.set_extension_targets(&c.wires_t, wires).unwrap();
        pw.set_extension_targets(&c.consts_t, consts).unwrap();
        pw.set_hash_target(c.pih_t, *pih).unwrap();
        let w = c.data.generate_witness(pw);
        c.outs.iter().map(|t| ue(w.get_extension_target(*t))).collect()
    })
}

fn base_to_ext(v: &[u64]) -> Vec<FE> {
    v.iter().map(|x| fe([*x, 0])).collect()
}

fn batch_sizes() -> Vec<usize> {
    let w = <F as Packable>::Packing::WIDTH;
    let mut v = vec![1usize, 2, 3, 5, w, w + 1];
    if w > 1 {
        v.push(w - 1);
    }
    let mut seen = BTreeSet::new();
    v.into_iter().filter(|x| seen.insert(*x)).collect()
}

// ---------------------------------------------------------------------------------------------
// Checks.

type Fail = (String, String);

struct Env {
    circ: Result<Circ, String>,
    /// the same evaluator built by a NARROW builder (37 routed wires, the repository's own
    /// size-optimised recursion shape): gates take other in-circuit code paths there
    /// (e.g. PoseidonGate without PoseidonMdsGate)
    circ_narrow: Result<Circ, String>,
    /// false when `eval_unfiltered_base_one` is the documented stub of packed-only gates
    base_one: bool,
    thorough: bool,
}

fn fail<T>(site: String, detail: String) -> Result<T, Fail> {
    Err((site, detail))
}

fn replacements(v: u64, thorough: bool) -> Vec<u64> {
    let all = if thorough { vec![addm(v, 1), subm(v, 1), 0, 1, P - 1, addm(v, v)] } else { vec![addm(v, 1), subm(v, 1)] };
    dedup(all.into_iter().filter(|x| *x != v).collect())
}

fn short(v: &[u64]) -> String {
    if v.len() <= 16 {
        format!("{v:?}")
    } else {
        format!("{:?}…(+{})", &v[..16], v.len() - 16)
    }
}

/// ext evaluation of a base-valued row, as canonical pairs; checks the count.
fn ext_of_base(m: &Model, wires: &[FE], consts: &[FE], pih: &HashOut<F>) -> Result<Vec<E>, Fail> {
    match eval_ext(m, wires, consts, pih) {
        Ok(r) => Ok(r.into_iter().map(ue).collect()),
        Err(e) => fail(format!("num-constraints:{}:eval_unfiltered", m.kind), e),
    }
}

/// Compare the batch evaluator with already computed extension-evaluator results on base rows.
fn compare_batches(m: &Model, rows: &[Vec<u64>], crows: &[Vec<u64>], ext: &[Vec<E>], pih: &HashOut<F>, tick: &mut u64) -> Result<(), Fail> {
    let b = rows.len();
    let view: Vec<(&[u64], &[u64])> = (0..b).map(|i| (rows[i].as_slice(), crows[i].as_slice())).collect();
    let res = eval_batch(m, &view, pih);
    *tick += b as u64;
    for i in 0..b {
        let e = &ext[i];
        if res[i].len() != e.len() {
            return fail(format!("num-constraints:{}:base_batch", m.kind), format!("batch evaluator yields {} constraints per point, eval_unfiltered {}", res[i].len(), e.len()));
        }
        for j in 0..e.len() {
            if e[j][1] != 0 || e[j][0] != res[i][j] {
                return fail(
                    format!("evaluator-mismatch:{}:base_batch", m.kind),
                    format!("constraint {j}, batch size {b}, point {i}: eval_unfiltered = {:?}, eval_unfiltered_base_batch = {}; wires {} consts {:?}", e[j], res[i][j], short(&rows[i]), crows[i]),
                );
            }
        }
    }
    Ok(())
}

/// Cut a list of rows into batches of cycling sizes and compare each.
fn compare_in_batches(m: &Model, rows: &[Vec<u64>], crows: &[Vec<u64>], ext: &[Vec<E>], pih: &HashOut<F>, tick: &mut u64) -> Result<(), Fail> {
    let sizes = batch_sizes();
    let (mut pos, mut k) = (0usize, 0usize);
    while pos < rows.len() {
        let b = sizes[k % sizes.len()].min(rows.len() - pos);
        k += 1;
        compare_batches(m, &rows[pos..pos + b], &crows[pos..pos + b], &ext[pos..pos + b], pih, tick)?;
        pos += b;
    }
    Ok(())
}

fn compare_circuit(m: &Model, env: &Env, wires: &[FE], consts: &[FE], pih: &HashOut<F>, ext: &[E], what: &str) -> Result<(), Fail> {
    compare_circuit_with(m, &env.circ, "", wires, consts, pih, ext, what)?;
    compare_circuit_with(m, &env.circ_narrow, "-narrow-builder", wires, consts, pih, ext, what)
}

fn compare_circuit_with(m: &Model, circ: &Result<Circ, String>, tag: &str, wires: &[FE], consts: &[FE], pih: &HashOut<F>, ext: &[E], what: &str) -> Result<(), Fail> {
    let c = match circ {
        Ok(c) => c,
        Err(e) => return fail(format!("panic:{}:eval_unfiltered_circuit{tag}", m.kind), format!("building the evaluation circuit panicked: {e}")),
    };
    if c.outs.len() != ext.len() {
        return fail(format!("num-constraints:{}:circuit", m.kind), format!("eval_unfiltered_circuit yields {} constraints, eval_unfiltered {}", c.outs.len(), ext.len()));
    }
    let got = match eval_circ(c, wires, consts, pih) {
        Ok(g) => g,
        Err(e) => return fail(format!("panic:{}:eval_unfiltered_circuit", m.kind), format!("witness generation of the evaluation circuit failed on {what}: {e}")),
    };
    for j in 0..ext.len() {
        if got[j] != ext[j] {
            return fail(format!("evaluator-mismatch:{}:circuit{tag}", m.kind), format!("constraint {j} on {what}: eval_unfiltered = {:?}, eval_unfiltered_circuit = {:?}", ext[j], got[j]));
        }
    }
    Ok(())
}

fn compare_base_one(m: &Model, env: &Env, row: &[u64], consts: &[u64], pih: &HashOut<F>, ext: &[E]) -> Result<(), Fail> {
    if !env.base_one {
        return Ok(());
    }
    let got = match eval_base_one(m, row, consts, pih) {
        Ok(g) => g,
        Err(e) => return fail(format!("panic:{}:eval_unfiltered_base_one", m.kind), e),
    };
    for j in 0..ext.len() {
        if ext[j][1] != 0 || got[j] != ext[j][0] {
            return fail(format!("evaluator-mismatch:{}:base_one", m.kind), format!("constraint {j}: eval_unfiltered = {:?}, eval_unfiltered_base_one = {:#x}; wires {}", ext[j], got[j], short(row)));
        }
    }
    Ok(())
}

fn pih_for(m: &Model, vals: &[u64]) -> [u64; 4] {
    if m.pih_wires {
        [vals[0], vals[1], vals[2], vals[3]]
    } else {
        [3, P - 2, 1 << 32, 5]
    }
}

/// Consistent alternative completions: rows in which several written wires are changed *together*
/// so that every constraint but the one guarding the input contract / the helper wire stays
/// satisfied.  Each must be rejected (a single-wire replacement cannot reach these).
fn alternatives(m: &Model, consts: &[u64], vals: &[u64], d: &Driven) -> Result<Vec<(&'static str, String, Vec<u64>)>, String> {
    let mut out = Vec::new();
    match &m.sem {
        Sem::BaseSum { b, limbs } => {
            // carry moved between neighbouring limbs: the weighted sum is unchanged, one limb leaves 0..B
            for i in 0..limbs.saturating_sub(1) {
                for up in [true, false] {
                    let mut r = d.row.clone();
                    if up {
                        r[1 + i] = addm(r[1 + i], *b);
                        r[2 + i] = subm(r[2 + i], 1);
                    } else {
                        r[1 + i] = subm(r[1 + i], *b);
                        r[2 + i] = addm(r[2 + i], 1);
                    }
                    out.push(("limb-carry", format!("limbs {i},{} shifted by {}B", i + 1, if up { "+" } else { "-" }), r));
                }
            }
            // one limb pushed out of 0..B by t, the remaining value re-decomposed into the other limbs
            // (possible through the wrap-around mod p when B^limbs is close to or above p)
            let x = d.row[0];
            for k in 0..*limbs {
                for t in [1u64, 2, 4, *b, P - 1, P - 2, P - 4, P - *b] {
                    let lk = addm(d.row[1 + k], t);
                    if lk < *b {
                        continue;
                    }
                    let mut rest = subm(x, mulm(lk, powm(*b, k as u128)));
                    let mut digits = Vec::with_capacity(*limbs);
                    for _ in 0..*limbs {
                        digits.push(rest % b);
                        rest /= b;
                    }
                    if rest != 0 || digits[k] != 0 {
                        continue;
                    }
                    let mut r = d.row.clone();
                    for (q, dg) in digits.iter().enumerate() {
                        r[1 + q] = *dg;
                    }
                    r[1 + k] = lk;
                    out.push(("limb-out-of-range", format!("limb {k} := {lk:#x}, other limbs re-decomposed"), r));
                }
            }
        }
        Sem::RandomAccess { bits, copies, extra } => {
            let vs = 1usize << bits;
            let routed = (2 + vs) * copies + extra;
            for c in 0..*copies {
                let base = (2 + vs) * c;
                for i in 0..*bits {
                    for j in 0..*bits {
                        if i == j {
                            continue;
                        }
                        // flip boolean bit j, solve the index equation for a (non-boolean) bit i, re-fold the list
                        let mut bv: Vec<u64> = (0..*bits).map(|k| d.row[routed + c * bits + k]).collect();
                        bv[j] = 1 - bv[j];
                        let others = (0..*bits).filter(|k| *k != i).fold(0u64, |a, k| addm(a, mulm(bv[k], 1 << k)));
                        bv[i] = mulm(subm(d.row[base], others), invm(1 << i).unwrap());
                        let mut items: Vec<u64> = (0..vs).map(|k| d.row[base + 2 + k]).collect();
                        for bit in &bv {
                            items = items.chunks(2).map(|xy| addm(xy[0], mulm(*bit, subm(xy[1], xy[0])))).collect();
                        }
                        let mut r = d.row.clone();
                        for k in 0..*bits {
                            r[routed + c * bits + k] = bv[k];
                        }
                        r[base + 1] = items[0];
                        out.push(("non-boolean-bit", format!("copy {c}: bit {j} flipped, bit {i} := {:#x}, claimed element re-folded", bv[i]), r));
                    }
                }
            }
        }
        Sem::Poseidon => {
            let swap = vals[12];
            // everything downstream of the (possibly swapped) state recomputed by the gate's own generator
            let rerun = |deltas: [u64; 4], swap_wire: u64| -> Result<Vec<u64>, String> {
                let mut v2 = vals.to_vec();
                for k in 0..4 {
                    v2[k] = addm(vals[k], deltas[k]);
                    v2[k + 4] = subm(vals[k + 4], deltas[k]);
                }
                v2[12] = 0;
                let d2 = drive(m, consts, &v2)?;
                let mut r = d2.row;
                for k in 0..12 {
                    r[k] = vals[k];
                }
                r[24] = swap_wire;
                for k in 0..4 {
                    r[25 + k] = deltas[k];
                }
                Ok(r)
            };
            for s2 in [2u64, P - 1] {
                let mut deltas = [0u64; 4];
                for k in 0..4 {
                    deltas[k] = mulm(s2, subm(vals[k + 4], vals[k]));
                }
                out.push(("non-boolean-swap", format!("swap := {s2:#x} with consistent deltas and S-box wires"), rerun(deltas, s2)?));
            }
            for k in 0..4 {
                let mut deltas = [0u64; 4];
                for q in 0..4 {
                    deltas[q] = mulm(swap, subm(vals[q + 4], vals[q]));
                }
                deltas[k] = addm(deltas[k], 1);
                out.push(("free-delta", format!("delta {k} := honest + 1 with consistent S-box wires and outputs"), rerun(deltas, swap)?));
            }
        }
        _ => {}
    }
    Ok(out)
}

/// One in-contract input: honest row satisfied, reference values, every written wire pinned, evaluators agree.
fn check_honest(m: &Model, env: &Env, consts: &[u64], vals: &[u64], with_circuit: bool, tick: &mut u64) -> Result<String, Fail> {
    let kind = &m.kind;
    let d = match drive(m, consts, vals) {
        Ok(d) => d,
        Err(e) => return fail(format!("generators:{kind}"), format!("in-contract inputs {} consts {consts:?}: {e}", short(vals))),
    };
    let model_written: Vec<usize> = m.written.iter().map(|(w, _)| *w).collect();
    if d.written != model_written {
        let missing: Vec<&usize> = model_written.iter().filter(|w| !d.written.contains(w)).collect();
        let extra: Vec<&usize> = d.written.iter().filter(|w| !model_written.contains(w)).collect();
        return fail(format!("generator-written-set:{kind}"), format!("generators did not write wires {missing:?} / wrote unexpected wires {extra:?}"));
    }
    let model_inputs: Vec<usize> = if m.pih_wires { vec![] } else { m.inputs.iter().map(|(w, _)| *w).collect() };
    if d.watched != model_inputs {
        return fail(format!("generator-watch-list:{kind}"), format!("generators watch {:?}, the gate's input wires are {:?}", short(&d.watched.iter().map(|x| *x as u64).collect::<Vec<_>>()), short(&model_inputs.iter().map(|x| *x as u64).collect::<Vec<_>>())));
    }
    let pih = pih_of(pih_for(m, vals));
    let cfe = base_to_ext(consts);
    let mut wfe = base_to_ext(&d.row);
    // (1) honest row
    let honest = ext_of_base(m, &wfe, &cfe, &pih)?;
    *tick += 1;
    if let Some(j) = honest.iter().position(|c| *c != [0, 0]) {
        return fail(format!("honest-row-unsatisfied:{kind}"), format!("constraint {j} = {:?} on the generator-filled row; inputs {} consts {consts:?}", honest[j], short(vals)));
    }
    // reference semantics of the written values
    for (w, v) in reference(&m.sem, consts, &d.row) {
        if d.row[w] != v {
            let role = m.written.iter().find(|(x, _)| *x == w).map(|(_, r)| *r).unwrap_or("?");
            return fail(format!("generator-value:{kind}:{role}"), format!("wire {w} ({role}) = {:#x}, reference model says {v:#x}; inputs {} consts {consts:?}", d.row[w], short(vals)));
        }
    }
    // (2) every written wire, every replacement
    let targets: Vec<(usize, &str)> = if m.pih_wires { (0..4).map(|w| (w, "public_inputs_hash-wire")).collect() } else { m.written.clone() };
    // (3) rides along: honest and perturbed rows are handed to the batch evaluator in batches of
    // cycling sizes as they are produced (small reusable buffers; nothing is kept per case)
    let sizes = batch_sizes();
    let mut size_idx = 0usize;
    let mut rows: Vec<Vec<u64>> = vec![d.row.clone()];
    let mut exts: Vec<Vec<E>> = vec![honest.clone()];
    let mut crows: Vec<Vec<u64>> = vec![consts.to_vec()];
    let mut first_last: Vec<(Vec<u64>, Vec<E>)> = Vec::new();
    for (w, role) in &targets {
        let v = d.row[*w];
        for r in replacements(v, env.thorough) {
            wfe[*w] = fe([r, 0]);
            let e = ext_of_base(m, &wfe, &cfe, &pih)?;
            *tick += 1;
            if e.iter().all(|c| *c == [0, 0]) {
                return fail(
                    format!("under-constrained:{kind}:{role}"),
                    format!("wire {w} ({role}): generator value {v:#x} replaced by {r:#x}, all {} constraints still zero; inputs {} consts {consts:?}", e.len(), short(vals)),
                );
            }
            let mut pr = d.row.clone();
            pr[*w] = r;
            if first_last.len() < 2 {
                first_last.push((pr.clone(), e.clone()));
            } else {
                first_last[1] = (pr.clone(), e.clone());
            }
            rows.push(pr);
            exts.push(e);
            crows.push(consts.to_vec());
            if rows.len() >= sizes[size_idx % sizes.len()] {
                compare_batches(m, &rows, &crows, &exts, &pih, tick)?;
                rows.clear();
                exts.clear();
                crows.clear();
                size_idx += 1;
            }
        }
        wfe[*w] = fe([v, 0]);
    }
    if !rows.is_empty() {
        compare_batches(m, &rows, &crows, &exts, &pih, tick)?;
    }
    // (2b) consistent multi-wire alternative completions must be rejected as well
    let alts = match alternatives(m, consts, vals, &d) {
        Ok(a) => a,
        Err(e) => return fail(format!("generators:{kind}"), format!("building an alternative completion failed: {e}")),
    };
    for (what, desc, r) in &alts {
        let e = ext_of_base(m, &base_to_ext(r), &cfe, &pih)?;
        *tick += 1;
        if e.iter().all(|c| *c == [0, 0]) {
            return fail(format!("under-constrained:{kind}:{what}"), format!("alternative completion accepted ({desc}): all {} constraints zero; inputs {} consts {consts:?}", e.len(), short(vals)));
        }
    }
    compare_base_one(m, env, &d.row, consts, &pih, &honest)?;
    for (r, e) in &first_last {
        compare_base_one(m, env, r, consts, &pih, e)?;
    }
    if with_circuit {
        compare_circuit(m, env, &base_to_ext(&d.row), &cfe, &pih, &honest, "the honest row")?;
        for (r, e) in &first_last {
            compare_circuit(m, env, &base_to_ext(r), &cfe, &pih, e, "a perturbed row")?;
        }
        *tick += 3;
    }
    Ok(format!("{kind}:honest-satisfied+reference-equal+all-written-pinned{}", if with_circuit { "+circuit-agrees" } else { "" }))
}

/// One out-of-contract input: observation only (the generator may panic, decline, or produce a row
/// that violates the constraints; a satisfied row is legitimate for gates that leave the contract to the caller).
fn observe_out_of_contract(m: &Model, consts: &[u64], vals: &[u64], tick: &mut u64) -> Result<String, Fail> {
    let kind = &m.kind;
    let d = match guarded(|| drive(m, consts, vals)) {
        Err(_) => return Ok(format!("{kind}:out-of-contract:generator-panics")),
        Ok(Err(_)) => return Ok(format!("{kind}:out-of-contract:generator-declines")),
        Ok(Ok(d)) => d,
    };
    let pih = pih_of(pih_for(m, vals));
    let e = ext_of_base(m, &base_to_ext(&d.row), &base_to_ext(consts), &pih)?;
    *tick += 1;
    if e.iter().any(|c| *c != [0, 0]) {
        Ok(format!("{kind}:out-of-contract:constraints-nonzero"))
    } else {
        Ok(format!("{kind}:out-of-contract:row-satisfied(contract-left-to-caller)"))
    }
}

// ---------------------------------------------------------------------------------------------
// Arbitrary alphabet rows (not produced by generators): evaluator agreement and degree.

struct ARow {
    wires: Vec<E>,
    consts: Vec<E>,
}

fn arb_rows(nw: usize, nc: usize) -> (Vec<ARow>, Vec<ARow>) {
    let al = a24();
    let pick = |a: usize, b: usize, j: usize| al[(a * j + b) % al.len()];
    let mut base = Vec::new();
    for v in a8() {
        base.push(ARow { wires: vec![[v, 0]; nw], consts: vec![[v, 0]; nc] });
    }
    for (a, b) in [(1usize, 0usize), (5, 3), (7, 11), (11, 17)] {
        base.push(ARow { wires: (0..nw).map(|j| [pick(a, b, j), 0]).collect(), consts: (0..nc).map(|j| [pick(a, b + 5, j), 0]).collect() });
    }
    for seed in [1u64, 2] {
        let w = dense_vec(nw, seed);
        let c = dense_vec(nc, seed + 100);
        base.push(ARow { wires: w.iter().map(|x| [*x, 0]).collect(), consts: c.iter().map(|x| [*x, 0]).collect() });
    }
    let mut ext = Vec::new();
    for (a, b, c, d) in [(1usize, 0usize, 5usize, 7usize), (7, 2, 11, 1), (13, 5, 1, 9), (5, 19, 7, 4)] {
        ext.push(ARow { wires: (0..nw).map(|j| [pick(a, b, j), pick(c, d, j)]).collect(), consts: (0..nc).map(|j| [pick(c, b, j), pick(a, d, j)]).collect() });
    }
    for seed in [11u64, 12] {
        let w = dense_vec(2 * nw, seed);
        let c = dense_vec(2 * nc, seed + 100);
        ext.push(ARow { wires: (0..nw).map(|j| [w[2 * j], w[2 * j + 1]]).collect(), consts: (0..nc).map(|j| [c[2 * j], c[2 * j + 1]]).collect() });
    }
    (base, ext)
}

fn to_fe(v: &[E]) -> Vec<FE> {
    v.iter().map(|x| fe(*x)).collect()
}

fn check_arbitrary(m: &Model, env: &Env, tick: &mut u64) -> Result<String, Fail> {
    let (base, ext) = arb_rows(m.gate.0.num_wires(), m.gate.0.num_constants());
    let pih = pih_of([3, P - 2, 1 << 32, 5]);
    let mut rows = Vec::new();
    let mut crows = Vec::new();
    let mut exts = Vec::new();
    for r in &base {
        let e = ext_of_base(m, &to_fe(&r.wires), &to_fe(&r.consts), &pih)?;
        *tick += 1;
        rows.push(r.wires.iter().map(|x| x[0]).collect::<Vec<u64>>());
        crows.push(r.consts.iter().map(|x| x[0]).collect::<Vec<u64>>());
        exts.push(e);
    }
    compare_in_batches(m, &rows, &crows, &exts, &pih, tick)?;
    // one batch with all rows too (a long batch crosses the packed/remainder split for every WIDTH)
    let view: Vec<(&[u64], &[u64])> = (0..rows.len()).map(|i| (rows[i].as_slice(), crows[i].as_slice())).collect();
    let all = eval_batch(m, &view, &pih);
    for i in 0..rows.len() {
        let want: Vec<u64> = exts[i].iter().map(|x| x[0]).collect();
        if all[i] != want {
            return fail(format!("evaluator-mismatch:{}:base_batch", m.kind), format!("batch of {} arbitrary rows, point {i}: results differ from eval_unfiltered", rows.len()));
        }
    }
    for i in 0..rows.len() {
        compare_base_one(m, env, &rows[i], &crows[i], &pih, &exts[i])?;
        compare_circuit(m, env, &to_fe(&base[i].wires), &to_fe(&base[i].consts), &pih, &exts[i], "an arbitrary base-field row")?;
        *tick += 2;
    }
    for r in &ext {
        let (w, c) = (to_fe(&r.wires), to_fe(&r.consts));
        let e = ext_of_base(m, &w, &c, &pih)?;
        compare_circuit(m, env, &w, &c, &pih, &e, "an arbitrary extension-valued row")?;
        *tick += 2;
    }
    Ok(format!("{}:evaluators-agree:ext={}=batch=circuit", m.kind, if env.base_one { "base_one" } else { "(base_one-delegates-to-packed)" }))
}

/// Degree along lines a + t*b through pairs of arbitrary rows: the finite difference of order
/// degree()+1 of every constraint must vanish (exact; harness arithmetic).
fn check_degree(m: &Model, tick: &mut u64) -> Result<String, Fail> {
    let (base, ext) = arb_rows(m.gate.0.num_wires(), m.gate.0.num_constants());
    let deg = m.gate.0.degree();
    let pih = pih_of([3, P - 2, 1 << 32, 5]);
    let pairs: Vec<(&ARow, &ARow)> = vec![(&ext[4], &ext[5]), (&ext[0], &ext[4]), (&ext[5], &ext[1]), (&base[12], &base[13]), (&base[9], &ext[5]), (&ext[2], &base[13])];
    let mut observed = 0usize;
    for (pi, (a, b)) in pairs.iter().enumerate() {
        let mut vals: Vec<Vec<E>> = Vec::new();
        for t in 0..(deg as u64 + 2) {
            let w: Vec<E> = a.wires.iter().zip(&b.wires).map(|(x, y)| eadd(*x, escal(*y, t))).collect();
            let c: Vec<E> = a.consts.iter().zip(&b.consts).map(|(x, y)| eadd(*x, escal(*y, t))).collect();
            vals.push(ext_of_base(m, &to_fe(&w), &to_fe(&c), &pih)?);
            *tick += 1;
        }
        let n = vals[0].len();
        for j in 0..n {
            let mut col: Vec<E> = vals.iter().map(|v| v[j]).collect();
            for order in 1..=(deg + 1) {
                col = (0..col.len() - 1).map(|i| esub(col[i + 1], col[i])).collect();
                if col[0] != [0, 0] {
                    if order > deg {
                        return fail(format!("degree:{}", m.kind), format!("constraint {j} has degree > degree() = {deg} along the line through arbitrary rows (pair {pi}): difference of order {order} is {:?}", col[0]));
                    }
                    observed = observed.max(order);
                }
            }
        }
    }
    Ok(format!("{}:degree-declared={deg},observed={observed}", m.kind))
}

// ---------------------------------------------------------------------------------------------
// Case execution (deterministic reporting order although cases run on worker threads).

#[derive(Default)]
struct Rec {
    viol: Vec<(String, String, String)>,
    classes: BTreeMap<String, u64>,
    ticks: u64,
    cases: u64,
    machinery: Vec<String>,
}

impl Rec {
    fn merge(&mut self, o: Rec) {
        self.viol.extend(o.viol);
        for (c, n) in o.classes {
            *self.classes.entry(c).or_insert(0) += n;
        }
        self.ticks += o.ticks;
        self.cases += o.cases;
        self.machinery.extend(o.machinery);
    }
}

fn exec<Fun: Fn(&mut u64) -> Result<String, Fail>>(ctx: &Ctx, kind: &str, case: &str, rec: &mut Rec, f: Fun) {
    if !ctx.want(case) {
        return;
    }
    let run = |tick: &mut u64| -> Result<String, Fail> {
        match guarded(|| f(tick)) {
            Ok(r) => r,
            Err(p) => Err((format!("panic:{kind}"), format!("panic: {p}"))),
        }
    };
    rec.cases += 1;
    let mut t = 0u64;
    match run(&mut t) {
        Ok(class) => {
            *rec.classes.entry(class).or_insert(0) += 1;
        }
        Err(first) => {
            let mut t2 = 0u64;
            match run(&mut t2) {
                Err(second) if second == first => rec.viol.push((first.0, case.to_string(), first.1)),
                other => rec.machinery.push(format!("non-deterministic failure for case {case}: first {first:?}, then {other:?}")),
            }
        }
    }
    rec.ticks += t;
}

fn flush(ctx: &Ctx, rec: Rec) {
    for (site, case, detail) in rec.viol {
        ctx.violation(site, case, detail);
    }
    for (c, n) in rec.classes {
        ctx.count(&format!("class:{c}"), n);
        ctx.class(c);
    }
    for e in rec.machinery {
        ctx.machinery_error(e);
    }
    ctx.tick(rec.ticks);
    ctx.count("cases", rec.cases);
}

fn out_of_contract_cases(m: &Model) -> Vec<(String, Vec<u64>)> {
    let bases = base_vectors(m);
    let mut v = Vec::new();
    for (b, base) in bases.iter().enumerate().take(2) {
        for (i, (wire, d)) in m.inputs.iter().enumerate() {
            for x in dom_outside(*d) {
                let mut vals = base.clone();
                vals[i] = x;
                v.push((format!("b={b} wire={wire} v={x}"), vals));
            }
        }
    }
    v
}

struct Prepared {
    plan: Plan,
    csets: Vec<Vec<u64>>,
    total: usize,
    stride: usize,
    ooc: Vec<(String, Vec<u64>)>,
}

fn prepare(m: &Model, thorough: bool) -> Prepared {
    let plan = plan(m, thorough);
    let csets = const_sets(m.gate.0.num_constants(), thorough, plan.len());
    let total = plan.len() * csets.len();
    let n_circ = if thorough { 240 } else { 24 };
    Prepared { stride: (total / n_circ).max(1), ooc: out_of_contract_cases(m), plan, csets, total }
}

#[derive(Clone, Copy)]
enum Work {
    Arbitrary(usize),
    Degree(usize),
    Honest(usize, usize),
    OutOfContract(usize),
}

const CHUNK: usize = 16;

fn do_work(ctx: &Ctx, models: &[Model], envs: &[Env], preps: &[Prepared], w: Work) -> Rec {
    let mut rec = Rec::default();
    match w {
        Work::Arbitrary(i) => {
            let m = &models[i];
            exec(ctx, &m.kind, &format!("{} arbitrary-rows", m.name), &mut rec, |t| check_arbitrary(m, &envs[i], t));
        }
        Work::Degree(i) => {
            let m = &models[i];
            exec(ctx, &m.kind, &format!("{} degree", m.name), &mut rec, |t| check_degree(m, t));
        }
        Work::Honest(i, ch) => {
            let (m, p) = (&models[i], &preps[i]);
            let n_in = p.plan.len();
            for idx in ch * CHUNK..((ch + 1) * CHUNK).min(p.total) {
                let (ci, t) = (idx / n_in, idx % n_in);
                let case = format!("{} honest c={ci} t={t}", m.name);
                if !ctx.want(&case) {
                    continue;
                }
                let vals = p.plan.get(m, t);
                exec(ctx, &m.kind, &case, &mut rec, |tick| check_honest(m, &envs[i], &p.csets[ci], &vals, idx % p.stride == 0, tick));
            }
        }
        Work::OutOfContract(i) => {
            let (m, p) = (&models[i], &preps[i]);
            for (desc, vals) in &p.ooc {
                exec(ctx, &m.kind, &format!("{} out-of-contract {desc}", m.name), &mut rec, |t| observe_out_of_contract(m, &p.csets[0], vals, t));
            }
        }
    }
    rec
}

fn sample_of(m: &Model, thorough: bool) -> serde_json::Value {
    let pl = plan(m, thorough);
    let csets = const_sets(m.gate.0.num_constants(), thorough, pl.len());
    let t = pl.len() / 2;
    let vals = pl.get(m, t);
    let consts = &csets[csets.len() / 2];
    match guarded(|| drive(m, consts, &vals)) {
        Ok(Ok(d)) => {
            let (w, role) = if m.pih_wires { (0usize, "public_inputs_hash-wire") } else { m.written[m.written.len() / 2] };
            let pih = pih_of(pih_for(m, &vals));
            let mut wfe = base_to_ext(&d.row);
            let r = addm(d.row[w], 1);
            wfe[w] = fe([r, 0]);
            let e = eval_ext(m, &wfe, &base_to_ext(consts), &pih).unwrap_or_default();
            let nz: Vec<usize> = e.iter().enumerate().filter(|(_, c)| ue(**c) != [0, 0]).map(|(j, _)| j).collect();
            json!({"gate": m.name, "constants": consts, "inputs": short(&vals), "wire": w, "role": role,
                   "generator_value": d.row[w], "replacement": r, "constraints_made_nonzero": short(&nz.iter().map(|x| *x as u64).collect::<Vec<_>>())})
        }
        other => json!({"gate": m.name, "error": format!("{:?}", other.map(|r| r.map(|_| ())))}),
    }
}

pub fn run(ctx: &Ctx) -> i32 {
    let thorough = ctx.tier.thorough();
    let models: Vec<Model> = catalogue().into_iter().filter(|m| thorough || m.quick).collect();
    // evaluation circuits and the base_one capability, built once per gate
    let envs: Vec<Env> = par_map(models.len(), |i| {
        let m = &models[i];
        let circ = build_circ(m, CircuitConfig::standard_recursion_config());
        let circ_narrow = build_circ(m, CircuitConfig { num_routed_wires: 37, ..CircuitConfig::standard_recursion_config() });
        let nw = m.gate.0.num_wires();
        let nc = m.gate.0.num_constants();
        let probe = eval_base_one(m, &vec![1u64; nw], &vec![1u64; nc], &pih_of([0; 4]));
        let base_one = match &probe {
            Err(e) if e.contains("use eval_unfiltered_base_packed instead") => false,
            _ => true,
        };
        Env { circ, circ_narrow, base_one, thorough }
    });
    let preps: Vec<Prepared> = par_map(models.len(), |i| prepare(&models[i], thorough));
    let mut summary = Vec::new();
    let mut kinds: BTreeMap<String, usize> = BTreeMap::new();
    let mut work: Vec<Work> = Vec::new();
    for (i, m) in models.iter().enumerate() {
        *kinds.entry(m.kind.clone()).or_insert(0) += 1;
        ctx.class(format!("{}:eval_unfiltered_base_one:{}", m.kind, if envs[i].base_one { "implemented" } else { "documented-stub(use packed)" }));
        let nw = m.gate.0.num_wires();
        if m.written.iter().any(|(w, _)| *w >= nw) || m.inputs.iter().any(|(w, _)| *w >= nw) {
            ctx.violation(format!("num-wires:{}", m.kind), format!("{} layout", m.name), format!("the gate's wire layout needs more than num_wires() = {nw} wires"));
            continue;
        }
        let p = &preps[i];
        work.push(Work::Arbitrary(i));
        work.push(Work::Degree(i));
        for ch in 0..(p.total + CHUNK - 1) / CHUNK {
            work.push(Work::Honest(i, ch));
        }
        work.push(Work::OutOfContract(i));
        ctx.count(&format!("honest-rows:{}", m.kind), p.total as u64);
        ctx.count("out-of-contract-rows", p.ooc.len() as u64);
        summary.push(json!({
            "gate": m.name, "num_wires": nw, "num_constants": m.gate.0.num_constants(), "num_constraints": m.gate.0.num_constraints(),
            "degree": m.gate.0.degree(), "input_wires": m.inputs.len(), "written_wires": m.written.len(),
            "input_plan": p.plan.describe(), "constant_vectors": p.csets.len(), "honest_rows": p.total, "out_of_contract_rows": p.ooc.len(),
        }));
    }
    // all work items run on the pool; results are merged in catalogue order so that reports are deterministic
    let recs = par_map(work.len(), |k| do_work(ctx, &models, &envs, &preps, work[k]));
    let mut all = Rec::default();
    for r in recs {
        all.merge(r);
    }
    flush(ctx, all);
    if !ctx.replaying() {
        for name in ["ArithmeticGate{num_ops=20}", "BaseSumGate<2>{limbs=63}", "PoseidonGate{}", "RandomAccessGate{bits=4,copies=4,extra=2}", "ExponentiationGate{num_power_bits=8}", "CosetInterpolationGate{subgroup_bits=4,degree=6}", "ReducingGate{num_coeffs=43}", "PublicInputGate{}"] {
            if let Some(m) = models.iter().find(|m| m.name == name) {
                ctx.sample(sample_of(m, thorough));
            }
        }
    }
    let variant = crate::variant_name();
    let width = <F as Packable>::Packing::WIDTH;
    ctx.finish(Finish {
        level: "exploration",
        rule: "per built-in gate x parameterisation: one row in isolation, filled by the gate's own generators (plus the builder's ConstantGenerators for extra_constant_wires) on an identity-map PartitionWitness; in-contract inputs: per operation slot the exhaustive product over the largest of A8 / E4={0,1,2,p-1} / E3={0,1,p-1} that fits the cap (booleans {0,1}, indices 0..2^bits, sums < B^limbs from a boundary list), else three base vectors with <= 2 coordinates deviating (singles over A24, pairs over the alphabet recorded per gate), crossed with constant vectors (A8^k thorough, {1,0,p-1,2^32}^k quick); oracles: honest row = 0 with exactly num_constraints() entries, written wires equal a harness reference model, every generator-written wire x every replacement in {v+1,v-1,0,1,p-1,2v}\\{v} (quick: v+1,v-1) makes a constraint non-zero, eval_unfiltered = eval_unfiltered_base_batch (batch sizes 1,2,3,5,WIDTH-1,WIDTH,WIDTH+1 and one long batch) = eval_unfiltered_base_one = eval_unfiltered_circuit (witness generation of a circuit built once per gate) on honest, perturbed and arbitrary base/extension rows, finite differences of order degree()+1 along lines through arbitrary rows vanish; out-of-contract inputs are observed only",
        exhaustive: true,
        assumptions: vec![
            "inputs outside the alphabets / beyond two simultaneous deviations from the base vectors of the wide gates are not covered".into(),
            "single-wire replacement only: a wire that is pinned only jointly with another written wire is not distinguished".into(),
            "PoseidonGate partial-round S-box wires have no independent reference value (factored rounds); they are checked by constraint satisfaction and pinning only".into(),
            "LookupGate, LookupTableGate, NoopGate are outside C07 (no row-local relation / no generators)".into(),
            format!("build variant: {variant}; packed WIDTH = {width} (AVX2/AVX-512 packings need a build with the target feature)"),
        ],
        extra: json!({"variant": variant, "packed_width": width, "gates": summary, "gate_kinds": kinds}),
    })
}
