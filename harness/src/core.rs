//! Shared machinery: run context, evidence writer, violation / known-finding handling,
//! worker pool, panic capture, field alphabets and bigint reference arithmetic.

use std::collections::{BTreeMap, BTreeSet};
use std::panic::{catch_unwind, AssertUnwindSafe};
use std::sync::atomic::{AtomicBool, AtomicU64, AtomicUsize, Ordering};
use std::sync::Mutex;
use std::time::Instant;

use serde_json::{json, Value};

pub const VERIF_DIR: &str = "/verif";

/// Where evidence and replay files go: /verif, or $VERIF_OUT when a scratch tree is being checked
/// (tools/run_on_tree.sh), so that a run against a modified copy never overwrites real evidence.
pub fn out_dir() -> String {
    std::env::var("VERIF_OUT").unwrap_or_else(|_| VERIF_DIR.to_string())
}

#[derive(Clone, Copy, PartialEq, Eq, Debug)]
pub enum Tier {
    Quick,
    Thorough,
}

impl Tier {
    pub fn name(self) -> &'static str {
        match self {
            Tier::Quick => "quick",
            Tier::Thorough => "thorough",
        }
    }
    pub fn thorough(self) -> bool {
        self == Tier::Thorough
    }
}

#[derive(Clone, Debug)]
pub struct Violation {
    pub site: String,
    pub case: String,
    pub detail: String,
}

pub struct Ctx {
    pub id: String,
    pub tier: Tier,
    pub seed: u64,
    pub filter: Option<String>,
    start: Instant,
    evals: AtomicU64,
    states: AtomicU64,
    transitions: AtomicU64,
    traces: AtomicU64,
    classes: Mutex<BTreeSet<String>>,
    samples: Mutex<Vec<Value>>,
    counters: Mutex<BTreeMap<String, u64>>,
    violations: Mutex<Vec<Violation>>,
    machinery: Mutex<Vec<String>>,
    notes: Mutex<Vec<String>>,
    caps_hit: Mutex<Vec<String>>,
}

pub struct Finish<'a> {
    pub level: &'a str,
    pub rule: &'a str,
    pub exhaustive: bool,
    pub assumptions: Vec<String>,
    pub extra: Value,
}

impl Ctx {
    pub fn new(id: &str, tier: Tier, filter: Option<String>) -> Self {
        let seed = std::env::var("VERIF_SEED")
            .ok()
            .and_then(|s| s.parse::<u64>().ok())
            .unwrap_or(0);
        Ctx {
            id: id.to_string(),
            tier,
            seed,
            filter,
            start: Instant::now(),
            evals: AtomicU64::new(0),
            states: AtomicU64::new(0),
            transitions: AtomicU64::new(0),
            traces: AtomicU64::new(0),
            classes: Mutex::new(BTreeSet::new()),
            samples: Mutex::new(Vec::new()),
            counters: Mutex::new(BTreeMap::new()),
            violations: Mutex::new(Vec::new()),
            machinery: Mutex::new(Vec::new()),
            notes: Mutex::new(Vec::new()),
            caps_hit: Mutex::new(Vec::new()),
        }
    }

    /// `true` if this case is to be executed (no replay filter, or the filter names it).
    pub fn want(&self, case: &str) -> bool {
        match &self.filter {
            None => true,
            Some(f) => f == case,
        }
    }
    pub fn replaying(&self) -> bool {
        self.filter.is_some()
    }

    pub fn tick(&self, n: u64) {
        self.evals.fetch_add(n, Ordering::Relaxed);
    }
    pub fn state(&self, n: u64) {
        self.states.fetch_add(n, Ordering::Relaxed);
    }
    pub fn transition(&self, n: u64) {
        self.transitions.fetch_add(n, Ordering::Relaxed);
    }
    pub fn trace(&self, n: u64) {
        self.traces.fetch_add(n, Ordering::Relaxed);
    }
    pub fn evals(&self) -> u64 {
        self.evals.load(Ordering::Relaxed)
    }
    /// Record an observation class (distinct non-trivial cases are counted as distinct classes).
    pub fn class(&self, key: impl Into<String>) {
        thread_local! {
            static SEEN: std::cell::RefCell<std::collections::HashSet<String>> = std::cell::RefCell::new(std::collections::HashSet::new());
        }
        let key: String = key.into();
        let fresh = SEEN.with(|s| {
            let mut s = s.borrow_mut();
            if s.contains(&key) {
                false
            } else {
                if s.len() < 200_000 {
                    s.insert(key.clone());
                }
                true
            }
        });
        if !fresh {
            return;
        }
        let mut c = self.classes.lock().unwrap();
        if c.len() < 2_000_000 {
            c.insert(key);
        }
    }
    pub fn count(&self, key: &str, n: u64) {
        *self.counters.lock().unwrap().entry(key.to_string()).or_insert(0) += n;
    }
    pub fn counter(&self, key: &str) -> u64 {
        self.counters.lock().unwrap().get(key).copied().unwrap_or(0)
    }
    pub fn sample(&self, v: Value) {
        let mut s = self.samples.lock().unwrap();
        if s.len() < 12 {
            s.push(v);
        }
    }
    pub fn note(&self, s: impl Into<String>) {
        self.notes.lock().unwrap().push(s.into());
    }
    pub fn cap_hit(&self, s: impl Into<String>) {
        self.caps_hit.lock().unwrap().push(s.into());
    }
    pub fn machinery_error(&self, s: impl Into<String>) {
        let s = s.into();
        eprintln!("MACHINERY-ERROR property={} {}", self.id, s);
        self.machinery.lock().unwrap().push(s);
    }
    /// Report a violation. `site` is the stable key used for known-findings matching,
    /// `case` is the replay descriptor understood by `--replay`.
    pub fn violation(&self, site: impl Into<String>, case: impl Into<String>, detail: impl Into<String>) {
        let mut v = self.violations.lock().unwrap();
        if v.len() < 100_000 {
            v.push(Violation { site: site.into(), case: case.into(), detail: detail.into() });
        }
    }
    pub fn n_violations(&self) -> usize {
        self.violations.lock().unwrap().len()
    }

    /// Run one case with panic capture. `f` returns Ok(observation class) or Err(detail).
    /// A failing case is executed a second time; a differing observation is a machinery error.
    pub fn case<F>(&self, site: &str, case: &str, f: F)
    where
        F: Fn() -> Result<String, String>,
    {
        if !self.want(case) {
            return;
        }
        self.tick(1);
        let run = || match catch_unwind(AssertUnwindSafe(&f)) {
            Ok(r) => r,
            Err(p) => Err(format!("panic: {}", panic_message(&p))),
        };
        match run() {
            Ok(class) => {
                if !class.is_empty() {
                    self.class(class);
                }
            }
            Err(detail) => {
                let again = run();
                match again {
                    Err(d2) if d2 == detail => self.violation(site, case, detail),
                    other => self.machinery_error(format!(
                        "non-deterministic failure for case {case}: first {detail:?}, then {other:?}"
                    )),
                }
            }
        }
    }

    pub fn finish(&self, fin: Finish) -> i32 {
        let wall = self.start.elapsed().as_secs_f64();
        let known = load_known_findings(&self.id);
        let viols = self.violations.lock().unwrap().clone();
        let mut by_site: BTreeMap<String, Vec<&Violation>> = BTreeMap::new();
        for v in &viols {
            by_site.entry(v.site.clone()).or_default().push(v);
        }
        let mut new_sites = 0usize;
        let mut known_sites = 0usize;
        let mut out_lines = Vec::new();
        for (site, vs) in &by_site {
            if let Some(k) = known.iter().find(|k| &k.site == site) {
                known_sites += 1;
                out_lines.push(format!(
                    "KNOWN-FINDING: property={} site={} {} ({} case(s), e.g. {})",
                    self.id,
                    site,
                    k.text,
                    vs.len(),
                    vs[0].case
                ));
            } else {
                new_sites += 1;
                let fname = format!(
                    "{}/replays/{}-{}.json",
                    out_dir(),
                    self.id,
                    sanitize(site)
                );
                let body = json!({
                    "property": self.id,
                    "site": site,
                    "case": vs[0].case,
                    "detail": vs[0].detail,
                    "more_cases": vs.iter().skip(1).take(20).map(|v| v.case.clone()).collect::<Vec<_>>(),
                    "n_cases": vs.len(),
                    "replay_cmd": format!("./check {} --replay {}", self.id, fname),
                });
                let _ = std::fs::create_dir_all(format!("{}/replays", out_dir()));
                let _ = std::fs::write(&fname, serde_json::to_string_pretty(&body).unwrap());
                if new_sites <= 25 {
                    out_lines.push(format!(
                        "VIOLATION property={} replay={}   # site={} cases={} first: {} :: {}",
                        self.id,
                        fname,
                        site,
                        vs.len(),
                        vs[0].case,
                        truncate(&vs[0].detail, 300)
                    ));
                }
            }
        }
        let machinery = self.machinery.lock().unwrap().clone();
        let caps = self.caps_hit.lock().unwrap().clone();
        let classes = self.classes.lock().unwrap().len() as u64;
        let mut coverage = json!({
            "evaluations": self.evals.load(Ordering::Relaxed),
            "distinct_nontrivial": classes,
            "rule": fin.rule,
            "samples": self.samples.lock().unwrap().clone(),
            "exhaustive": fin.exhaustive && caps.is_empty() && !self.replaying(),
            "counters": self.counters.lock().unwrap().clone(),
            "caps_hit": caps,
            "known_finding_sites": known_sites,
            "new_violation_sites": new_sites,
        });
        let st = self.states.load(Ordering::Relaxed);
        let tr = self.transitions.load(Ordering::Relaxed);
        if st > 0 || fin.level == "model_checking" {
            coverage["states"] = json!(st);
            coverage["transitions"] = json!(tr);
            coverage["traces_validated_against_impl"] = json!(self.traces.load(Ordering::Relaxed));
        }
        if let Value::Object(m) = &fin.extra {
            for (k, v) in m {
                coverage[k] = v.clone();
            }
        }
        let mut assumptions = fin.assumptions.clone();
        for n in self.notes.lock().unwrap().iter() {
            assumptions.push(n.clone());
        }
        if let Ok(vs) = std::env::var("VERIF_VARIANTS") {
            let mut arr = Vec::new();
            for v in vs.split_whitespace() {
                let p = format!("{}/evidence/variants/{}-{}.json", out_dir(), self.id, v);
                match std::fs::read_to_string(&p).ok().and_then(|s| serde_json::from_str::<Value>(&s).ok()) {
                    Some(j) => arr.push(json!({"variant": v, "evaluations": j["coverage"]["evaluations"], "distinct_nontrivial": j["coverage"]["distinct_nontrivial"], "violations": j["violations"], "wall_s": j["wall_s"], "build": j["coverage"]["variant"]})),
                    None => arr.push(json!({"variant": v, "missing": true})),
                }
            }
            coverage["simd_variants"] = json!(arr);
        }
        let ev = json!({
            "property_id": self.id,
            "tier": self.tier.name(),
            "seed": self.seed,
            "level": fin.level,
            "coverage": coverage,
            "assumptions": assumptions,
            "wall_s": wall,
            "violations": viols.len(),
            "machinery_errors": machinery,
        });
        if !self.replaying() {
            let _ = std::fs::create_dir_all(format!("{}/evidence/variants", out_dir()));
            // a SIMD build variant writes a side file; the main (scalar) run folds them in
            let path = match std::env::var("VERIF_VARIANT_NAME") {
                Ok(v) if !v.is_empty() => format!("{}/evidence/variants/{}-{}.json", out_dir(), self.id, v),
                _ => format!("{}/evidence/{}.json", out_dir(), self.id),
            };
            if let Err(e) = std::fs::write(&path, serde_json::to_string_pretty(&ev).unwrap()) {
                eprintln!("cannot write evidence {path}: {e}");
                return 2;
            }
        }
        for l in &out_lines {
            println!("{l}");
        }
        println!(
            "{} tier={} evaluations={} distinct={} states={} transitions={} violations={} (known sites {}, new sites {}) wall={:.1}s",
            self.id,
            self.tier.name(),
            self.evals.load(Ordering::Relaxed),
            classes,
            st,
            tr,
            viols.len(),
            known_sites,
            new_sites,
            wall
        );
        // a confirmed (re-executed, deterministic) violation is a verdict even if another part of the
        // run hit a machinery problem
        if new_sites > 0 {
            return 1;
        }
        if !machinery.is_empty() {
            return 2;
        }
        if self.evals.load(Ordering::Relaxed) == 0 && !self.replaying() {
            eprintln!("MACHINERY-ERROR property={} nothing was explored", self.id);
            return 2;
        }
        0
    }
}

fn sanitize(s: &str) -> String {
    let t: String = s
        .chars()
        .map(|c| if c.is_ascii_alphanumeric() || c == '-' || c == '_' || c == '.' { c } else { '_' })
        .collect();
    truncate(&t, 120)
}

pub fn truncate(s: &str, n: usize) -> String {
    if s.len() <= n {
        s.to_string()
    } else {
        let mut end = n;
        while !s.is_char_boundary(end) {
            end -= 1;
        }
        format!("{}…", &s[..end])
    }
}

pub struct KnownFinding {
    pub site: String,
    pub text: String,
}

/// known_findings.txt lines: `finding: property=<ID> site=<key> <text>`; `fixed:` lines suppress nothing.
pub fn load_known_findings(id: &str) -> Vec<KnownFinding> {
    let path = format!("{}/known_findings.txt", VERIF_DIR);
    let mut out = Vec::new();
    if let Ok(s) = std::fs::read_to_string(path) {
        for line in s.lines() {
            let line = line.trim();
            if let Some(rest) = line.strip_prefix("finding:") {
                let mut it = rest.trim().splitn(3, ' ');
                let p = it.next().unwrap_or("");
                let s = it.next().unwrap_or("");
                let t = it.next().unwrap_or("");
                if p == format!("property={id}") {
                    if let Some(site) = s.strip_prefix("site=") {
                        out.push(KnownFinding { site: site.to_string(), text: t.to_string() });
                    }
                }
            }
        }
    }
    out
}

pub fn panic_message(p: &Box<dyn std::any::Any + Send>) -> String {
    if let Some(s) = p.downcast_ref::<&str>() {
        s.to_string()
    } else if let Some(s) = p.downcast_ref::<String>() {
        s.clone()
    } else {
        "<non-string panic>".to_string()
    }
}

pub fn silence_panics() {
    std::panic::set_hook(Box::new(|_| {}));
}

/// Catch a panic, returning Err(message).
pub fn guarded<T>(f: impl FnOnce() -> T) -> Result<T, String> {
    catch_unwind(AssertUnwindSafe(f)).map_err(|p| panic_message(&p))
}

pub fn n_workers() -> usize {
    std::env::var("VERIF_WORKERS")
        .ok()
        .and_then(|s| s.parse().ok())
        .unwrap_or_else(|| std::thread::available_parallelism().map(|n| n.get()).unwrap_or(4))
}

/// Run `f(i)` for every i in 0..n on a pool of worker threads (dynamic chunked distribution).
pub fn par_for<F: Fn(usize) + Sync>(n: usize, f: F) {
    par_for_chunk(n, 1, f)
}

pub fn par_for_chunk<F: Fn(usize) + Sync>(n: usize, chunk: usize, f: F) {
    let next = AtomicUsize::new(0);
    let poisoned = AtomicBool::new(false);
    let w = n_workers().min(n.max(1));
    std::thread::scope(|s| {
        for _ in 0..w {
            s.spawn(|| loop {
                let i0 = next.fetch_add(chunk, Ordering::Relaxed);
                if i0 >= n {
                    break;
                }
                for i in i0..(i0 + chunk).min(n) {
                    if catch_unwind(AssertUnwindSafe(|| f(i))).is_err() {
                        poisoned.store(true, Ordering::Relaxed);
                    }
                }
            });
        }
    });
    if poisoned.load(Ordering::Relaxed) {
        eprintln!("MACHINERY-ERROR a worker closure panicked outside a guarded case");
        std::process::exit(2);
    }
}

/// Run `f(i)` for all i, collect results in index order.
pub fn par_map<T: Send, F: Fn(usize) -> T + Sync>(n: usize, f: F) -> Vec<T> {
    let slots: Vec<Mutex<Option<T>>> = (0..n).map(|_| Mutex::new(None)).collect();
    par_for(n, |i| {
        let v = f(i);
        *slots[i].lock().unwrap() = Some(v);
    });
    slots.into_iter().map(|m| m.into_inner().unwrap().expect("worker result")).collect()
}

// ------------------------------------------------------------------------------------------
// Field alphabets (raw u64 representations) and reference arithmetic mod p = 2^64 - 2^32 + 1.

pub const P: u64 = 0xFFFF_FFFF_0000_0001;
pub const EPS: u64 = 0xFFFF_FFFF;

pub fn a8() -> Vec<u64> {
    vec![0, 1, 2, P - 1, P - 2, EPS, 1 << 32, 1 << 63]
}

pub fn a24() -> Vec<u64> {
    let mut v = a8();
    v.extend_from_slice(&[
        EPS - 1,
        EPS + 2,
        (1 << 32) + 1,
        1 << 31,
        (1 << 63) - 1,
        (1 << 63) + 1,
        1 << 48,
        (P - 1) / 2,
        (P + 1) / 2,
        7,
        (1 << 16) - 1,
        1 << 16,
        255,
        256,
        P - EPS,
        P - (1 << 32),
    ]);
    dedup(v)
}

pub fn nc() -> Vec<u64> {
    vec![P, P + 1, P + 2, P + (1 << 31), u64::MAX - 1, u64::MAX]
}

pub fn l49() -> Vec<u64> {
    let limbs: [u64; 7] = [0, 1, 2, (1 << 31) - 1, 1 << 31, (1u64 << 32) - 2, (1u64 << 32) - 1];
    let mut v = Vec::new();
    for &hi in &limbs {
        for &lo in &limbs {
            v.push((hi << 32) | lo);
        }
    }
    v
}

/// R = A24 ∪ NC ∪ L49, simplest first, deduplicated.
pub fn r_alphabet() -> Vec<u64> {
    let mut v = a24();
    v.extend(nc());
    v.extend(l49());
    dedup(v)
}

pub fn dedup(v: Vec<u64>) -> Vec<u64> {
    let mut seen = BTreeSet::new();
    v.into_iter().filter(|x| seen.insert(*x)).collect()
}

#[inline]
pub fn rm(x: u64) -> u64 {
    x % P
}
#[inline]
pub fn addm(a: u64, b: u64) -> u64 {
    (((a % P) as u128 + (b % P) as u128) % P as u128) as u64
}
#[inline]
pub fn subm(a: u64, b: u64) -> u64 {
    (((a % P) as u128 + P as u128 - (b % P) as u128) % P as u128) as u64
}
#[inline]
pub fn negm(a: u64) -> u64 {
    subm(0, a)
}
#[inline]
pub fn mulm(a: u64, b: u64) -> u64 {
    (((a % P) as u128 * (b % P) as u128) % P as u128) as u64
}
pub fn powm(a: u64, mut e: u128) -> u64 {
    let mut base = a % P;
    let mut acc = 1u64;
    while e > 0 {
        if e & 1 == 1 {
            acc = mulm(acc, base);
        }
        base = mulm(base, base);
        e >>= 1;
    }
    acc
}
pub fn invm(a: u64) -> Option<u64> {
    if a % P == 0 {
        None
    } else {
        Some(powm(a, (P - 2) as u128))
    }
}

/// Schoolbook arithmetic in F_p[X]/(X^D - W), coefficients canonical u64.
pub fn ext_mul(a: &[u64], b: &[u64], w: u64) -> Vec<u64> {
    let d = a.len();
    let mut r = vec![0u64; d];
    for i in 0..d {
        for j in 0..d {
            let t = mulm(a[i], b[j]);
            if i + j < d {
                r[i + j] = addm(r[i + j], t);
            } else {
                r[i + j - d] = addm(r[i + j - d], mulm(t, w));
            }
        }
    }
    r
}
pub fn ext_add(a: &[u64], b: &[u64]) -> Vec<u64> {
    a.iter().zip(b).map(|(x, y)| addm(*x, *y)).collect()
}
pub fn ext_sub(a: &[u64], b: &[u64]) -> Vec<u64> {
    a.iter().zip(b).map(|(x, y)| subm(*x, *y)).collect()
}
pub fn ext_one(d: usize) -> Vec<u64> {
    let mut v = vec![0; d];
    v[0] = 1;
    v
}
pub fn ext_pow(a: &[u64], e: &num::BigUint, w: u64) -> Vec<u64> {
    let mut acc = ext_one(a.len());
    let bits = e.bits();
    for i in (0..bits).rev() {
        acc = ext_mul(&acc, &acc, w);
        if e.bit(i) {
            acc = ext_mul(&acc, a, w);
        }
    }
    acc
}

/// splitmix64, used only for "dense" deterministic filler vectors (never for choosing cases).
pub fn splitmix(state: &mut u64) -> u64 {
    *state = state.wrapping_add(0x9E37_79B9_7F4A_7C15);
    let mut z = *state;
    z = (z ^ (z >> 30)).wrapping_mul(0xBF58_476D_1CE4_E5B9);
    z = (z ^ (z >> 27)).wrapping_mul(0x94D0_49BB_1331_11EB);
    z ^ (z >> 31)
}
pub fn dense_vec(n: usize, mut seed: u64) -> Vec<u64> {
    (0..n).map(|_| splitmix(&mut seed) % P).collect()
}
