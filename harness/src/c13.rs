//! C13 — optimised hashing and the transcript sponge equal their specification.
//! Textbook Poseidon (reference) vs every optimised layer on extreme-valued states, the sponge for
//! all short message lengths, and an explicit-state exploration of the challenger state machine
//! against a reference duplex model (native, Keccak-permutation and in-circuit challengers).

use plonky2::field::extension::Extendable;
use plonky2::field::goldilocks_field::GoldilocksField as F;
use plonky2::field::types::Field;
use plonky2::hash::hash_types::{HashOut, RichField};
use plonky2::hash::hashing::{compress, hash_n_to_hash_no_pad, hash_n_to_m_no_pad, PlonkyPermutation};
use plonky2::hash::keccak::{KeccakHash, KeccakPermutation};
use plonky2::hash::merkle_tree::MerkleCap;
use plonky2::hash::poseidon::{Poseidon, PoseidonHash, PoseidonPermutation, ALL_ROUND_CONSTANTS, N_PARTIAL_ROUNDS, SPONGE_WIDTH};
use plonky2::iop::challenger::{Challenger, RecursiveChallenger};
use plonky2::iop::witness::{PartialWitness, WitnessWrite, Witness};
use plonky2::plonk::circuit_builder::CircuitBuilder;
use plonky2::plonk::circuit_data::CircuitConfig;
use plonky2::plonk::config::{GenericHashOut, Hasher, PoseidonGoldilocksConfig};
use serde_json::json;

use crate::core::*;

pub type St = [u64; 12];

// ---------------------------------------------------------------------------------------------
// Textbook Poseidon over Goldilocks (width 12, 8 full + 22 partial rounds, x^7), u128 arithmetic.

pub fn mds_dense() -> [[u64; 12]; 12] {
    let circ = <F as Poseidon>::MDS_MATRIX_CIRC;
    let diag = <F as Poseidon>::MDS_MATRIX_DIAG;
    let mut m = [[0u64; 12]; 12];
    for r in 0..12 {
        for i in 0..12 {
            m[r][(i + r) % 12] = circ[i];
        }
        m[r][r] += diag[r];
    }
    m
}

pub fn ref_mds(s: &St) -> St {
    let m = mds_dense();
    let mut out = [0u64; 12];
    for r in 0..12 {
        let mut acc = 0u64;
        for c in 0..12 {
            acc = addm(acc, mulm(m[r][c], s[c]));
        }
        out[r] = acc;
    }
    out
}
fn sbox(x: u64) -> u64 {
    powm(x, 7)
}
pub fn ref_constants(s: &St, round: usize) -> St {
    let mut o = *s;
    for i in 0..12 {
        o[i] = addm(o[i], ALL_ROUND_CONSTANTS[i + 12 * round]);
    }
    o
}
pub fn ref_full_round(s: &St, round: usize) -> St {
    let mut o = ref_constants(s, round);
    for i in 0..12 {
        o[i] = sbox(o[i]);
    }
    ref_mds(&o)
}
pub fn ref_partial_round(s: &St, round: usize) -> St {
    let mut o = ref_constants(s, round);
    o[0] = sbox(o[0]);
    ref_mds(&o)
}
pub fn ref_poseidon(input: &St) -> St {
    let mut s: St = input.map(|x| x % P);
    let mut round = 0;
    for _ in 0..4 {
        s = ref_full_round(&s, round);
        round += 1;
    }
    for _ in 0..22 {
        s = ref_partial_round(&s, round);
        round += 1;
    }
    for _ in 0..4 {
        s = ref_full_round(&s, round);
        round += 1;
    }
    s
}

fn to_f(s: &St) -> [F; 12] {
    s.map(F)
}
fn to_u(s: &[F; 12]) -> St {
    s.map(|x| x.0 % P)
}

// ---------------------------------------------------------------------------------------------

pub fn run(ctx: &Ctx) -> i32 {
    static_conditions(ctx);
    anchors(ctx);
    layers(ctx);
    sponge(ctx);
    keccak_spec(ctx);
    challenger_native(ctx);
    challenger_with_empty_absorbs(ctx);
    challenger_compound(ctx);
    challenger_circuit(ctx);
    let variant = crate::variant_name();
    ctx.finish(Finish {
        level: "model_checking",
        rule: "permutation: every optimised layer and the full permutation on U1 = {0,p-1,2^64-1}^12 (3^12 states), U2 = three base states with <= 2 lanes replaced by every value of R, U3 = uniform / single-lane states, against textbook Poseidon on u128 arithmetic; sponge: all message lengths 0..=40 x output counts; challenger: every operation sequence in {observe, get}^<=d explored as a tree (state = sponge state + buffers) against a reference duplex model step by step, natively (Poseidon and Keccak permutations) and in-circuit (RecursiveChallenger, one circuit per sequence). states = challenger states visited, transitions = operations applied, traces_validated = complete sequences whose every output agreed with the model",
        exhaustive: true,
        assumptions: vec![
            "states outside U1/U2/U3 are not covered (2^768 states are out of reach of enumeration); the alphabets contain the all-ones 32-bit halves that maximise every delayed-reduction accumulator".into(),
            "the reference permutation is anchored on the four published test vectors".into(),
            "AVX2/NEON Poseidon specialisations are commented out / other-architecture in this tree".into(),
            "Keccak side: KeccakHash::{hash_no_pad, two_to_one, hash_or_noop} and KeccakPermutation::permute are compared with an independent Keccak-256 (Keccak-f[1600] written in the harness, anchored on the published digests of the empty string and of \"abc\") applied to the documented byte layout".into(),
            format!("build variant: {variant}"),
        ],
        extra: json!({"variant": variant}),
    })
}

fn static_conditions(ctx: &Ctx) {
    ctx.tick(1);
    for (i, c) in ALL_ROUND_CONSTANTS.iter().enumerate() {
        if *c >= P {
            ctx.violation("round-constant-noncanonical", format!("round constant {i}"), "ALL_ROUND_CONSTANTS entry >= p violates add_canonical_u64's precondition");
        }
    }
    for (i, c) in <F as Poseidon>::FAST_PARTIAL_ROUND_CONSTANTS.iter().enumerate() {
        if *c >= P {
            ctx.violation("fast-round-constant-noncanonical", format!("fast partial round constant {i}"), ">= p");
        }
    }
    for c in <F as Poseidon>::FAST_PARTIAL_FIRST_ROUND_CONSTANT.iter() {
        if *c >= P {
            ctx.violation("fast-first-constant-noncanonical", "fast first constant".to_string(), ">= p");
        }
    }
    for row in <F as Poseidon>::FAST_PARTIAL_ROUND_VS.iter().chain(<F as Poseidon>::FAST_PARTIAL_ROUND_W_HATS.iter()).chain(<F as Poseidon>::FAST_PARTIAL_ROUND_INITIAL_MATRIX.iter()) {
        for c in row {
            if *c >= P {
                ctx.violation("fast-matrix-noncanonical", "fast partial matrices".to_string(), "entry >= p passed to from_canonical_u64");
            }
        }
    }
    // u128 accumulation in mds_row_shf: sum of entries * 2^64 must stay below 2^128, and the result
    // must fit 96 bits for from_noncanonical_u96: sum(entries) < 2^32.
    let total: u128 = <F as Poseidon>::MDS_MATRIX_CIRC.iter().map(|x| *x as u128).sum::<u128>() + *<F as Poseidon>::MDS_MATRIX_DIAG.iter().max().unwrap() as u128;
    if total >= 1 << 32 {
        ctx.violation("mds-entries-too-large", "mds entries".to_string(), "row sum * 2^64 does not fit 96 bits");
    }
    ctx.class("static-conditions");
}

fn anchors(ctx: &Ctx) {
    let neg = P - 1;
    let vectors: Vec<(St, St)> = vec![
        ([0; 12], [0x3c18a9786cb0b359, 0xc4055e3364a246c3, 0x7953db0ab48808f4, 0xc71603f33a1144ca, 0xd7709673896996dc, 0x46a84e87642f44ed, 0xd032648251ee0b3c, 0x1c687363b207df62, 0xdf8565563e8045fe, 0x40f5b37ff4254dae, 0xd070f637b431067c, 0x1792b1c4342109d7]),
        ([0, 1, 2, 3, 4, 5, 6, 7, 8, 9, 10, 11], [0xd64e1e3efc5b8e9e, 0x53666633020aaa47, 0xd40285597c6a8825, 0x613a4f81e81231d2, 0x414754bfebd051f0, 0xcb1f8980294a023f, 0x6eb2a9e4d54a9d0f, 0x1902bc3af467e056, 0xf045d5eafdc6021f, 0xe4150f77caaa3be5, 0xc9bfd01d39b50cce, 0x5c0a27fcb0e1459b]),
        ([neg; 12], [0xbe0085cfc57a8357, 0xd95af71847d05c09, 0xcf55a13d33c1c953, 0x95803a74f4530e82, 0xfcd99eb30a135df1, 0xe095905e913a3029, 0xde0392461b42919b, 0x7d3260e24e81d031, 0x10d3d0465d9deaa0, 0xa87571083dfc2a47, 0xe18263681e9958f8, 0xe28e96f1ae5e60d3]),
        (
            [0x8ccbbbea4fe5d2b7, 0xc2af59ee9ec49970, 0x90f7e1a9e658446a, 0xdcc0630a3ab8b1b8, 0x7ff8256bca20588c, 0x5d99a7ca0c44ecfb, 0x48452b17a70fbee3, 0xeb09d654690b6c88, 0x4a55d3a39c676a88, 0xc0407a38d2285139, 0xa234bac9356386d1, 0xe1633f2bad98a52f],
            [0xa89280105650c4ec, 0xab542d53860d12ed, 0x5704148e9ccab94f, 0xd3a826d4b62da9f5, 0x8a7a6ca87892574f, 0xc7017e1cad1a674e, 0x1f06668922318e34, 0xa3b203bc8102676f, 0xfcc781b0ce382bf2, 0x934c69ff3ed14ba5, 0x504688a5996e8f13, 0x401f3f2ed524a2ba],
        ),
    ];
    for (i, (inp, out)) in vectors.iter().enumerate() {
        ctx.tick(1);
        if ref_poseidon(inp) != *out {
            ctx.machinery_error(format!("reference Poseidon fails published test vector {i}"));
        }
        if to_u(&F::poseidon(to_f(inp))) != *out {
            ctx.violation("poseidon:test-vector", format!("test vector {i}"), "optimised permutation differs from the published vector");
        }
    }
    ctx.class("anchors");
}

fn check_state(ctx: &Ctx, s: &St, tag: &str) {
    let case = format!("layers {tag} {s:?}");
    if !ctx.want(&case) {
        return;
    }
    ctx.tick(1);
    let fs = to_f(s);
    let cs: St = s.map(|x| x % P);
    let res = guarded(|| {
        let mut bad: Vec<&'static str> = Vec::new();
        // MDS: Goldilocks override and the generic row routine
        if to_u(&<F as Poseidon>::mds_layer(&fs)) != ref_mds(&cs) {
            bad.push("mds_layer");
        }
        for r in 0..12 {
            let v = <F as Poseidon>::mds_row_shf(r, s);
            if (v % P as u128) as u64 != ref_mds(&cs)[r] {
                bad.push("mds_row_shf");
                break;
            }
        }
        // constant layer, every round counter on a few, round 0 and 29 always
        for round in [0usize, 3, 4, 25, 26, 29] {
            let mut t = fs;
            <F as Poseidon>::constant_layer(&mut t, round);
            if to_u(&t) != ref_constants(&cs, round) {
                bad.push("constant_layer");
                break;
            }
        }
        let mut t = fs;
        <F as Poseidon>::sbox_layer(&mut t);
        if to_u(&t) != cs.map(sbox) {
            bad.push("sbox_layer");
        }
        // partial_first_constant_layer / mds_partial_layer_init against their tables
        let mut t = fs;
        <F as Poseidon>::partial_first_constant_layer::<F, 1>(&mut t);
        let fc = <F as Poseidon>::FAST_PARTIAL_FIRST_ROUND_CONSTANT;
        let mut want = cs;
        for i in 0..12 {
            want[i] = addm(want[i], fc[i]);
        }
        if to_u(&t) != want {
            bad.push("partial_first_constant_layer");
        }
        let init = <F as Poseidon>::mds_partial_layer_init::<F, 1>(&fs);
        let im = <F as Poseidon>::FAST_PARTIAL_ROUND_INITIAL_MATRIX;
        let mut want = [0u64; 12];
        want[0] = cs[0];
        for r in 1..12 {
            for c in 1..12 {
                want[c] = addm(want[c], mulm(cs[r], im[r - 1][c - 1]));
            }
        }
        if to_u(&init) != want {
            bad.push("mds_partial_layer_init");
        }
        // mds_partial_layer_fast for every round index
        let vs = <F as Poseidon>::FAST_PARTIAL_ROUND_VS;
        let wh = <F as Poseidon>::FAST_PARTIAL_ROUND_W_HATS;
        let m00 = addm(<F as Poseidon>::MDS_MATRIX_CIRC[0], <F as Poseidon>::MDS_MATRIX_DIAG[0]);
        for r in 0..N_PARTIAL_ROUNDS {
            let got = to_u(&<F as Poseidon>::mds_partial_layer_fast(&fs, r));
            let mut want = [0u64; 12];
            let mut d = mulm(cs[0], m00);
            for i in 1..12 {
                d = addm(d, mulm(cs[i], wh[r][i - 1]));
                want[i] = addm(cs[i], mulm(cs[0], vs[r][i - 1]));
            }
            want[0] = d;
            if got != want {
                bad.push("mds_partial_layer_fast");
                break;
            }
        }
        // rounds
        let mut t = fs;
        let mut ctr = 0usize;
        <F as Poseidon>::full_rounds(&mut t, &mut ctr);
        let mut want = cs;
        for round in 0..4 {
            want = ref_full_round(&want, round);
        }
        if to_u(&t) != want || ctr != 4 {
            bad.push("full_rounds(0)");
        }
        let mut t = fs;
        let mut ctr = 4usize;
        <F as Poseidon>::partial_rounds(&mut t, &mut ctr);
        let mut t2 = fs;
        let mut ctr2 = 4usize;
        <F as Poseidon>::partial_rounds_naive(&mut t2, &mut ctr2);
        let mut want = cs;
        for round in 4..26 {
            want = ref_partial_round(&want, round);
        }
        if to_u(&t) != want || ctr != 26 {
            bad.push("partial_rounds");
        }
        if to_u(&t2) != want || ctr2 != 26 {
            bad.push("partial_rounds_naive");
        }
        let mut t = fs;
        let mut ctr = 26usize;
        <F as Poseidon>::full_rounds(&mut t, &mut ctr);
        let mut want = cs;
        for round in 26..30 {
            want = ref_full_round(&want, round);
        }
        if to_u(&t) != want {
            bad.push("full_rounds(26)");
        }
        // whole permutation
        let want = ref_poseidon(&cs);
        if to_u(&F::poseidon(fs)) != want {
            bad.push("poseidon");
        }
        if to_u(&F::poseidon_naive(fs)) != want {
            bad.push("poseidon_naive");
        }
        let mut perm = PoseidonPermutation::<F>::new(fs);
        perm.permute();
        let sq: Vec<u64> = perm.squeeze().iter().map(|x| x.0 % P).collect();
        if sq[..] != want[..8] {
            bad.push("PoseidonPermutation");
        }
        bad
    });
    match res {
        Ok(b) if b.is_empty() => ctx.class(format!("layers:{tag}")),
        Ok(b) => ctx.violation(format!("poseidon:{}", b[0]), case, format!("{b:?}")),
        Err(p) => ctx.violation("poseidon:panic", case, p),
    }
}

fn layers(ctx: &Ctx) {
    // U1: all 3^12 uniform-extreme states
    let ext = [0u64, P - 1, u64::MAX];
    let n1 = 3usize.pow(12);
    let stride1 = if ctx.tier.thorough() { 1 } else { 1 };
    par_for_chunk(n1 / stride1, 256, |i| {
        let mut k = i * stride1;
        let mut s = [0u64; 12];
        for lane in 0..12 {
            s[lane] = ext[k % 3];
            k /= 3;
        }
        check_state(ctx, &s, "U1");
    });
    ctx.count("U1_states", (n1 / stride1) as u64);
    // U2: base states with <= 2 lanes replaced by every value of R (quick: A24 ∪ NC subset)
    let r: Vec<u64> = if ctx.tier.thorough() { r_alphabet() } else { let mut v = a8(); v.extend(nc()); v.extend([EPS - 1, EPS + 2, (1 << 32) + 1, u64::MAX - EPS]); dedup(v) };
    let dense: St = {
        let d = dense_vec(12, 4242);
        let mut s = [0u64; 12];
        s.copy_from_slice(&d);
        s
    };
    let bases: Vec<St> = vec![[0; 12], [u64::MAX; 12], dense];
    let mut jobs: Vec<(usize, usize, usize)> = Vec::new(); // base, lane a, lane b (a==b: single)
    for b in 0..bases.len() {
        for a in 0..12 {
            for c in a..12 {
                jobs.push((b, a, c));
            }
        }
    }
    let u2 = std::sync::atomic::AtomicU64::new(0);
    par_for(jobs.len(), |j| {
        let (b, la, lb) = jobs[j];
        for &va in &r {
            if la == lb {
                let mut s = bases[b];
                s[la] = va;
                check_state(ctx, &s, "U2");
                u2.fetch_add(1, std::sync::atomic::Ordering::Relaxed);
            } else {
                for &vb in &r {
                    let mut s = bases[b];
                    s[la] = va;
                    s[lb] = vb;
                    check_state(ctx, &s, "U2");
                    u2.fetch_add(1, std::sync::atomic::Ordering::Relaxed);
                }
            }
        }
    });
    ctx.count("U2_states", u2.load(std::sync::atomic::Ordering::Relaxed));
    // U3: uniform r and single non-zero lane for every r in R
    let rr = r_alphabet();
    par_for(rr.len(), |i| {
        check_state(ctx, &[rr[i]; 12], "U3");
        for lane in 0..12 {
            let mut s = [0u64; 12];
            s[lane] = rr[i];
            check_state(ctx, &s, "U3");
        }
    });
    ctx.sample(json!({"U1": "all states over {0,p-1,2^64-1}^12", "U2_alphabet_len": r.len(), "U3_alphabet_len": rr.len()}));
}

// ---------------------------------------------------------------------------------------------
// Reference sponge (overwrite mode, rate 8) over an arbitrary permutation.

pub fn ref_sponge(perm: &dyn Fn(&St) -> St, inputs: &[u64], num_outputs: usize) -> Vec<u64> {
    let mut s = [0u64; 12];
    for chunk in inputs.chunks(8) {
        for (i, x) in chunk.iter().enumerate() {
            s[i] = x % P;
        }
        s = perm(&s);
    }
    let mut out = Vec::new();
    loop {
        for i in 0..8 {
            out.push(s[i]);
            if out.len() == num_outputs {
                return out;
            }
        }
        s = perm(&s);
    }
}

fn sponge(ctx: &Ctx) {
    let fams: Vec<Box<dyn Fn(usize) -> u64 + Sync>> = vec![
        Box::new(|i| i as u64 + 1),
        Box::new(|i| [0u64, P - 1, EPS, 1 << 32, 1][i % 5]),
        Box::new(|i| if i % 2 == 0 { u64::MAX } else { P }), // non-canonical
    ];
    let lens: Vec<usize> = (0..=40).collect();
    par_for(lens.len(), |li| {
        let len = lens[li];
        for (fi, fam) in fams.iter().enumerate() {
            let msg: Vec<u64> = (0..len).map(|i| fam(i)).collect();
            let fmsg: Vec<F> = msg.iter().map(|x| F(*x)).collect();
            for m in 1..=20usize {
                let case = format!("sponge len={len} fam={fi} outputs={m}");
                if !ctx.want(&case) {
                    continue;
                }
                ctx.tick(1);
                let want = ref_sponge(&ref_poseidon, &msg, m);
                match guarded(|| hash_n_to_m_no_pad::<F, PoseidonPermutation<F>>(&fmsg, m).iter().map(|x| x.0 % P).collect::<Vec<_>>()) {
                    Ok(g) => {
                        if g != want {
                            ctx.violation("hash_n_to_m_no_pad", case, "differs from the reference sponge");
                        } else {
                            ctx.class(format!("sponge:len{len}"));
                        }
                    }
                    Err(p) => ctx.violation("hash_n_to_m_no_pad:panic", case, p),
                }
            }
            let case = format!("hash len={len} fam={fi}");
            if !ctx.want(&case) {
                continue;
            }
            ctx.tick(1);
            let want4 = ref_sponge(&ref_poseidon, &msg, 4);
            let r = guarded(|| {
                let mut bad = Vec::new();
                let h = <PoseidonHash as Hasher<F>>::hash_no_pad(&fmsg);
                if h.elements.map(|x| x.0 % P)[..] != want4[..] {
                    bad.push("hash_no_pad");
                }
                if hash_n_to_hash_no_pad::<F, PoseidonPermutation<F>>(&fmsg).elements.map(|x| x.0 % P)[..] != want4[..] {
                    bad.push("hash_n_to_hash_no_pad");
                }
                // pad10*1
                let mut padded = msg.clone();
                padded.push(1);
                while (padded.len() + 1) % 8 != 0 {
                    padded.push(0);
                }
                padded.push(1);
                let hp = <PoseidonHash as Hasher<F>>::hash_pad(&fmsg);
                if hp.elements.map(|x| x.0 % P)[..] != ref_sponge(&ref_poseidon, &padded, 4)[..] {
                    bad.push("hash_pad");
                }
                // hash_or_noop: <= 4 elements are embedded verbatim (canonical), else hashed
                let hn = <PoseidonHash as Hasher<F>>::hash_or_noop(&fmsg);
                let want_noop: Vec<u64> = if len <= 4 {
                    let mut v: Vec<u64> = msg.iter().map(|x| x % P).collect();
                    v.resize(4, 0);
                    v
                } else {
                    want4.clone()
                };
                if hn.elements.map(|x| x.0 % P)[..] != want_noop[..] {
                    bad.push("hash_or_noop");
                }
                bad
            });
            match r {
                Ok(b) if b.is_empty() => {}
                Ok(b) => ctx.violation(format!("sponge:{}", b[0]), case, format!("{b:?}")),
                Err(p) => ctx.violation("sponge:panic", case, p),
            }
        }
    });
    // two_to_one / compress on boundary digests
    let vals = [0u64, 1, P - 1, u64::MAX, EPS, 1 << 32];
    let mut digests: Vec<[u64; 4]> = Vec::new();
    for &a in &vals {
        for &b in &vals {
            digests.push([a, b, a ^ 1, b.wrapping_add(7)]);
        }
    }
    for x in &digests {
        for y in &digests {
            ctx.tick(1);
            let hx = HashOut { elements: x.map(F) };
            let hy = HashOut { elements: y.map(F) };
            let mut st = [0u64; 12];
            for i in 0..4 {
                st[i] = x[i] % P;
                st[4 + i] = y[i] % P;
            }
            let want = ref_poseidon(&st);
            let c = compress::<F, PoseidonPermutation<F>>(hx, hy).elements.map(|e| e.0 % P);
            let t = <PoseidonHash as Hasher<F>>::two_to_one(hx, hy).elements.map(|e| e.0 % P);
            if c[..] != want[..4] || t[..] != want[..4] {
                ctx.violation("two_to_one", format!("two_to_one {x:?} {y:?}"), "differs from permutation of (x || y || 0^4)");
            }
        }
    }
    ctx.class("two_to_one");
}

// ---------------------------------------------------------------------------------------------
// Reference duplex challenger model.

#[derive(Clone)]
pub struct ModelChallenger {
    pub state: St,
    pub inbuf: Vec<u64>,
    pub outbuf: Vec<u64>,
}

impl ModelChallenger {
    pub fn new() -> Self {
        ModelChallenger { state: [0; 12], inbuf: vec![], outbuf: vec![] }
    }
    fn duplex(&mut self, perm: &dyn Fn(&St) -> St) {
        assert!(self.inbuf.len() <= 8);
        for (i, x) in self.inbuf.iter().enumerate() {
            self.state[i] = *x % P;
        }
        self.inbuf.clear();
        self.state = perm(&self.state);
        self.outbuf = self.state[..8].to_vec();
    }
    pub fn observe(&mut self, x: u64, perm: &dyn Fn(&St) -> St) {
        self.outbuf.clear();
        self.inbuf.push(x);
        if self.inbuf.len() == 8 {
            self.duplex(perm);
        }
    }
    pub fn get(&mut self, perm: &dyn Fn(&St) -> St) -> u64 {
        if !self.inbuf.is_empty() || self.outbuf.is_empty() {
            self.duplex(perm);
        }
        self.outbuf.pop().unwrap()
    }
    pub fn compact(&mut self, perm: &dyn Fn(&St) -> St) -> St {
        if !self.inbuf.is_empty() {
            self.duplex(perm);
        }
        self.outbuf.clear();
        self.state
    }
}

fn keccak_perm(s: &St) -> St {
    let mut p = KeccakPermutation::<F>::new(s.iter().map(|x| F(*x)));
    p.permute();
    let v: &[F] = p.as_ref();
    let mut out = [0u64; 12];
    for i in 0..12 {
        out[i] = v[i].0 % P;
    }
    out
}

fn observed_value(step: usize) -> u64 {
    // counter-valued inputs with a few boundary representations mixed in
    match step % 7 {
        3 => P - 1,
        5 => u64::MAX - step as u64, // non-canonical
        _ => step as u64 + 1,
    }
}

fn explore_challenger<H: Hasher<F>>(
    ctx: &Ctx,
    name: &str,
    perm: &(dyn Fn(&St) -> St + Sync),
    real: Challenger<F, H>,
    model: ModelChallenger,
    depth: usize,
    max_depth: usize,
    path: &mut Vec<u8>,
) where
    Challenger<F, H>: Clone,
    H::Permutation: AsRef<[F]>,
{
    ctx.state(1);
    if depth == max_depth {
        // leaf: compare the compacted sponge state
        let mut r = real.clone();
        let mut m = model.clone();
        let rs: Vec<u64> = r.compact().as_ref().iter().map(|x| x.0 % P).collect();
        let ms = m.compact(perm);
        ctx.trace(1);
        if rs[..] != ms[..] {
            ctx.violation(format!("challenger:{name}:compact"), format!("challenger {name} path={}", path_str(path)), "compact() state differs from the model");
        }
        return;
    }
    for op in 0..2u8 {
        let mut r = real.clone();
        let mut m = model.clone();
        path.push(op);
        ctx.transition(1);
        ctx.tick(1);
        let ok = if op == 0 {
            let v = observed_value(depth);
            r.observe_element(F(v));
            m.observe(v, perm);
            true
        } else {
            let a = r.get_challenge().0 % P;
            let b = m.get(perm);
            if a != b {
                ctx.violation(format!("challenger:{name}:get_challenge"), format!("challenger {name} path={}", path_str(path)), format!("challenge {a} != model {b}"));
            }
            a == b
        };
        if ok {
            explore_challenger(ctx, name, perm, r, m, depth + 1, max_depth, path);
        }
        path.pop();
    }
}

fn path_str(p: &[u8]) -> String {
    p.iter().map(|o| if *o == 0 { 'O' } else { 'G' }).collect()
}

fn challenger_native(ctx: &Ctx) {
    let d_pos = if ctx.tier.thorough() { 20 } else { 16 };
    let d_kec = if ctx.tier.thorough() { 17 } else { 13 };
    // split the tree at depth 6 into 64 subtrees for the worker pool
    let split = 6usize;
    par_for(1 << split, |prefix| {
        for (name, max_depth) in [("poseidon", d_pos), ("keccak", d_kec)] {
            let mut path: Vec<u8> = (0..split).map(|i| ((prefix >> (split - 1 - i)) & 1) as u8).collect();
            if name == "poseidon" {
                let mut real = Challenger::<F, PoseidonHash>::new();
                let mut model = ModelChallenger::new();
                let mut ok = true;
                for (d, op) in path.clone().iter().enumerate() {
                    if *op == 0 {
                        real.observe_element(F(observed_value(d)));
                        model.observe(observed_value(d), &ref_poseidon);
                    } else if real.get_challenge().0 % P != model.get(&ref_poseidon) {
                        ok = false; // reported by the subtree that owns the shorter prefix (prefix 0..)
                        ctx.violation("challenger:poseidon:get_challenge", format!("challenger poseidon path={}", path_str(&path[..=d])), "challenge differs from model");
                        break;
                    }
                }
                if ok {
                    explore_challenger(ctx, name, &ref_poseidon, real, model, split, max_depth, &mut path);
                }
            } else {
                let mut real = Challenger::<F, KeccakHash<25>>::new();
                let mut model = ModelChallenger::new();
                let mut ok = true;
                for (d, op) in path.clone().iter().enumerate() {
                    if *op == 0 {
                        real.observe_element(F(observed_value(d)));
                        model.observe(observed_value(d), &keccak_perm);
                    } else if real.get_challenge().0 % P != model.get(&keccak_perm) {
                        ok = false;
                        ctx.violation("challenger:keccak:get_challenge", format!("challenger keccak path={}", path_str(&path[..=d])), "challenge differs from model");
                        break;
                    }
                }
                if ok {
                    explore_challenger(ctx, name, &keccak_perm, real, model, split, max_depth, &mut path);
                }
            }
        }
    });
    ctx.class(format!("challenger:poseidon:depth{d_pos}"));
    ctx.class(format!("challenger:keccak:depth{d_kec}"));
    ctx.sample(json!({"challenger_tree": {"alphabet": ["O = observe_element(next value)", "G = get_challenge"], "poseidon_depth": d_pos, "keccak_depth": d_kec, "example_path": "OOOOOOOOGGGGGGGGGOG"}}));
}

/// Chunking invariance and compound operations as macro-steps.
fn challenger_compound(ctx: &Ctx) {
    // every composition of m <= 10 into chunks: observe_elements(chunk) == element-wise
    for m in 0..=10usize {
        let elems: Vec<u64> = (0..m).map(|i| observed_value(i + 3)).collect();
        let mut reference = Challenger::<F, PoseidonHash>::new();
        for e in &elems {
            reference.observe_element(F(*e));
        }
        let want: Vec<u64> = reference.get_n_challenges(9).iter().map(|x| x.0 % P).collect();
        let mut model = ModelChallenger::new();
        for e in &elems {
            model.observe(*e, &ref_poseidon);
        }
        let mwant: Vec<u64> = (0..9).map(|_| model.get(&ref_poseidon)).collect();
        ctx.tick(1);
        if want != mwant {
            ctx.violation("challenger:chunking:model", format!("chunking m={m}"), "element-wise absorption differs from the model");
        }
        let comps = if m == 0 { 1 } else { 1usize << (m - 1) };
        for mask in 0..comps {
            ctx.tick(1);
            let mut c = Challenger::<F, PoseidonHash>::new();
            let mut start = 0;
            for i in 0..m {
                let cut = i + 1 == m || (mask >> i) & 1 == 1;
                if cut {
                    let chunk: Vec<F> = elems[start..=i].iter().map(|x| F(*x)).collect();
                    c.observe_elements(&chunk);
                    start = i + 1;
                }
            }
            let got: Vec<u64> = c.get_n_challenges(9).iter().map(|x| x.0 % P).collect();
            if got != want {
                ctx.violation("challenger:chunking", format!("chunking m={m} mask={mask}"), "chunk-wise absorption yields different challenges");
            }
        }
    }
    ctx.class("challenger:chunking");
    // compound operations interleaved: every sequence of length <= 4 over the macro alphabet
    let macros = ["observe_hash", "observe_cap2", "observe_ext", "get_hash", "get_ext", "get_n3", "observe_elements5", "compact"];
    let len = if ctx.tier.thorough() { 5 } else { 4 };
    let total = macros.len().pow(len as u32);
    par_for(total, |idx| {
        let mut k = idx;
        let mut seq = Vec::new();
        for _ in 0..len {
            seq.push(k % macros.len());
            k /= macros.len();
        }
        let case = format!("challenger macros {:?}", seq.iter().map(|i| macros[*i]).collect::<Vec<_>>());
        if !ctx.want(&case) {
            return;
        }
        ctx.tick(1);
        ctx.trace(1);
        let r = guarded(|| {
            let mut c = Challenger::<F, PoseidonHash>::new();
            let mut m = ModelChallenger::new();
            let mut ctr = 10u64;
            let mut next = || {
                ctr += 1;
                ctr
            };
            for (step, &op) in seq.iter().enumerate() {
                ctx.transition(1);
                match macros[op] {
                    "observe_hash" => {
                        let h: [u64; 4] = [next(), next(), P - 1, next()];
                        c.observe_hash::<PoseidonHash>(HashOut { elements: h.map(F) });
                        for x in h {
                            m.observe(x, &ref_poseidon);
                        }
                    }
                    "observe_cap2" => {
                        let hs: Vec<[u64; 4]> = (0..2).map(|_| [next(), next(), next(), u64::MAX]).collect();
                        let cap = MerkleCap::<F, PoseidonHash>(hs.iter().map(|h| HashOut { elements: h.map(F) }).collect());
                        c.observe_cap(&cap);
                        for h in hs {
                            for x in h {
                                m.observe(x, &ref_poseidon);
                            }
                        }
                    }
                    "observe_ext" => {
                        let e = [next(), next()];
                        let ext = <<F as Extendable<2>>::Extension as plonky2::field::extension::FieldExtension<2>>::from_basefield_array(e.map(F));
                        c.observe_extension_element::<2>(&ext);
                        for x in e {
                            m.observe(x, &ref_poseidon);
                        }
                    }
                    "observe_elements5" => {
                        let e: Vec<u64> = (0..5).map(|_| next()).collect();
                        c.observe_elements(&e.iter().map(|x| F(*x)).collect::<Vec<_>>());
                        for x in e {
                            m.observe(x, &ref_poseidon);
                        }
                    }
                    "get_hash" => {
                        let h = c.get_hash().elements.map(|x| x.0 % P);
                        let w: Vec<u64> = (0..4).map(|_| m.get(&ref_poseidon)).collect();
                        if h[..] != w[..] {
                            return Err(format!("step {step}: get_hash"));
                        }
                    }
                    "get_ext" => {
                        let e = c.get_extension_challenge::<2>();
                        let arr = plonky2::field::extension::FieldExtension::<2>::to_basefield_array(&e).map(|x| x.0 % P);
                        let w: Vec<u64> = (0..2).map(|_| m.get(&ref_poseidon)).collect();
                        if arr[..] != w[..] {
                            return Err(format!("step {step}: get_extension_challenge"));
                        }
                    }
                    "get_n3" => {
                        let g: Vec<u64> = c.get_n_challenges(3).iter().map(|x| x.0 % P).collect();
                        let w: Vec<u64> = (0..3).map(|_| m.get(&ref_poseidon)).collect();
                        if g != w {
                            return Err(format!("step {step}: get_n_challenges"));
                        }
                    }
                    "compact" => {
                        let s: Vec<u64> = c.compact().as_ref().iter().map(|x| x.0 % P).collect();
                        let w = m.compact(&ref_poseidon);
                        if s[..] != w[..] {
                            return Err(format!("step {step}: compact"));
                        }
                    }
                    _ => unreachable!(),
                }
            }
            let a = c.get_challenge().0 % P;
            let b = m.get(&ref_poseidon);
            if a != b {
                return Err("final get_challenge".into());
            }
            Ok(())
        });
        match r {
            Ok(Ok(())) => {}
            Ok(Err(e)) => ctx.violation("challenger:macro", case, e),
            Err(p) => ctx.violation("challenger:macro:panic", case, p),
        }
    });
    ctx.class("challenger:macros");
}

/// RecursiveChallenger inside a circuit vs the native challenger, for every sequence in {O,G}^<=d.
fn challenger_circuit(ctx: &Ctx) {
    type C = PoseidonGoldilocksConfig;
    let d = if ctx.tier.thorough() { 10 } else { 8 };
    let mut seqs: Vec<Vec<u8>> = Vec::new();
    for len in 1..=d {
        for bits in 0..(1u32 << len) {
            seqs.push((0..len).map(|i| ((bits >> i) & 1) as u8).collect());
        }
    }
    ctx.count("recursive_challenger_sequences", seqs.len() as u64);
    par_for(seqs.len(), |si| {
        let seq = &seqs[si];
        let case = format!("recursive_challenger path={}", path_str(seq));
        if !ctx.want(&case) || !seq.contains(&1) {
            return;
        }
        ctx.tick(1);
        let r = guarded(|| {
            let config = CircuitConfig::standard_recursion_config();
            let mut builder = CircuitBuilder::<F, 2>::new(config);
            let mut rc = RecursiveChallenger::<F, PoseidonHash, 2>::new(&mut builder);
            let mut native = Challenger::<F, PoseidonHash>::new();
            let mut model = ModelChallenger::new();
            let mut pw = PartialWitness::<F>::new();
            let mut outs = Vec::new();
            let mut want = Vec::new();
            for (step, op) in seq.iter().enumerate() {
                if *op == 0 {
                    let v = observed_value(step) % P;
                    let t = builder.add_virtual_target();
                    pw.set_target(t, F(v)).unwrap();
                    rc.observe_element(t);
                    native.observe_element(F(v));
                    model.observe(v, &ref_poseidon);
                } else {
                    outs.push(rc.get_challenge(&mut builder));
                    let n = native.get_challenge().0 % P;
                    if n != model.get(&ref_poseidon) {
                        return Err("native differs from model".to_string());
                    }
                    want.push(n);
                }
            }
            // also compare the compacted state
            let st = rc.compact(&mut builder);
            let nst: Vec<u64> = native.compact().as_ref().iter().map(|x| x.0 % P).collect();
            let st_targets: Vec<_> = st.as_ref().to_vec();
            let data = builder.mock_build::<C>();
            let w = data.generate_witness(pw);
            for (i, t) in outs.iter().enumerate() {
                let v = w.get_target(*t).0 % P;
                if v != want[i] {
                    return Err(format!("in-circuit challenge #{i} = {v}, native = {}", want[i]));
                }
            }
            for (i, t) in st_targets.iter().enumerate() {
                if w.get_target(*t).0 % P != nst[i] {
                    return Err(format!("compact state lane {i} differs"));
                }
            }
            Ok(())
        });
        ctx.trace(1);
        match r {
            Ok(Ok(())) => ctx.class(format!("recursive_challenger:len{}", seq.len())),
            Ok(Err(e)) => ctx.violation("recursive_challenger", case, e),
            Err(p) => ctx.violation("recursive_challenger:panic", case, p),
        }
    });
}

#[allow(unused)]
fn _unused<T: RichField>() {}


// ---------------------------------------------------------------------------------------------
// Keccak: independent Keccak-256 and the documented byte layouts of keccak.rs

fn keccak_f(a: &mut [u64; 25]) {
    const RC: [u64; 24] = [
        0x0000000000000001, 0x0000000000008082, 0x800000000000808a, 0x8000000080008000, 0x000000000000808b, 0x0000000080000001, 0x8000000080008081, 0x8000000000008009,
        0x000000000000008a, 0x0000000000000088, 0x0000000080008009, 0x000000008000000a, 0x000000008000808b, 0x800000000000008b, 0x8000000000008089, 0x8000000000008003,
        0x8000000000008002, 0x8000000000000080, 0x000000000000800a, 0x800000008000000a, 0x8000000080008081, 0x8000000000008080, 0x0000000080000001, 0x8000000080008008,
    ];
    const ROT: [[u32; 5]; 5] = [[0, 36, 3, 41, 18], [1, 44, 10, 45, 2], [62, 6, 43, 15, 61], [28, 55, 25, 21, 56], [27, 20, 39, 8, 14]];
    // a[x + 5 y]
    for rc in RC {
        let mut c = [0u64; 5];
        for x in 0..5 {
            c[x] = a[x] ^ a[x + 5] ^ a[x + 10] ^ a[x + 15] ^ a[x + 20];
        }
        for x in 0..5 {
            let d = c[(x + 4) % 5] ^ c[(x + 1) % 5].rotate_left(1);
            for y in 0..5 {
                a[x + 5 * y] ^= d;
            }
        }
        let mut b = [0u64; 25];
        for x in 0..5 {
            for y in 0..5 {
                b[y + 5 * ((2 * x + 3 * y) % 5)] = a[x + 5 * y].rotate_left(ROT[x][y]);
            }
        }
        for x in 0..5 {
            for y in 0..5 {
                a[x + 5 * y] = b[x + 5 * y] ^ (!b[(x + 1) % 5 + 5 * y] & b[(x + 2) % 5 + 5 * y]);
            }
        }
        a[0] ^= rc;
    }
}

pub fn ref_keccak256(msg: &[u8]) -> [u8; 32] {
    const RATE: usize = 136;
    let mut st = [0u64; 25];
    let mut padded = msg.to_vec();
    padded.push(0x01);
    while padded.len() % RATE != 0 {
        padded.push(0);
    }
    let n = padded.len();
    padded[n - 1] |= 0x80;
    for block in padded.chunks(RATE) {
        for (i, w) in block.chunks(8).enumerate() {
            st[i] ^= u64::from_le_bytes(w.try_into().unwrap());
        }
        keccak_f(&mut st);
    }
    let mut out = [0u8; 32];
    for i in 0..4 {
        out[8 * i..8 * i + 8].copy_from_slice(&st[i].to_le_bytes());
    }
    out
}

fn keccak_spec(ctx: &Ctx) {
    use plonky2::plonk::config::GenericHashOut;
    // anchors of the reference itself
    let hex = |b: &[u8]| b.iter().map(|x| format!("{x:02x}")).collect::<String>();
    ctx.case("keccak:reference-anchor", "keccak anchors", || {
        if hex(&ref_keccak256(b"")) != "c5d2460186f7233c927e7db2dcc703c0e500b653ca82273b7bfad8045d85a470" {
            return Err("reference Keccak-256 of the empty string is wrong (harness bug)".into());
        }
        if hex(&ref_keccak256(b"abc")) != "4e03657aea45a94fc7d47ba826c8d667c0d1e6e33a64a036ec44f58fa12d6c45" {
            return Err("reference Keccak-256 of abc is wrong (harness bug)".into());
        }
        // a message longer than one rate block
        let long = vec![0xA3u8; 200];
        if hex(&ref_keccak256(&long)) != "3a57666b048777f2c953dc4456f45a2588e1cb6f2da760122d530ac2ce607d4a" {
            return Err("reference Keccak-256 of 200 x 0xa3 is wrong (harness bug)".into());
        }
        Ok("keccak:anchors".into())
    });
    let vals = [0u64, 1, P - 1, EPS, 1 << 32, 1 << 63, P, u64::MAX, 0x0123_4567_89ab_cdef];
    // hash_no_pad / hash_or_noop: all lengths 0..=40, elements cycling through boundary values
    for len in 0..=40usize {
        let msg: Vec<u64> = (0..len).map(|i| vals[(i * 5 + len) % vals.len()]).collect();
        let case = format!("keccak hash_no_pad len={len}");
        ctx.case("keccak:hash_no_pad", &case, || {
            let f: Vec<F> = msg.iter().map(|x| F(*x)).collect();
            let bytes: Vec<u8> = msg.iter().flat_map(|x| (x % P).to_le_bytes()).collect();
            let want = ref_keccak256(&bytes);
            let got = <KeccakHash<25> as Hasher<F>>::hash_no_pad(&f);
            if got.0[..] != want[..25] {
                return Err(format!("KeccakHash<25>::hash_no_pad differs from Keccak-256 of the little-endian canonical bytes (len {len})"));
            }
            let got32 = <KeccakHash<32> as Hasher<F>>::hash_no_pad(&f);
            if got32.0[..] != want[..] {
                return Err(format!("KeccakHash<32>::hash_no_pad differs (len {len})"));
            }
            let noop = <KeccakHash<25> as Hasher<F>>::hash_or_noop(&f);
            if len * 8 <= 25 {
                let mut w = [0u8; 25];
                w[..bytes.len()].copy_from_slice(&bytes);
                if noop.0 != w {
                    return Err(format!("hash_or_noop of a short input is not the verbatim zero-padded bytes (len {len})"));
                }
            } else if noop.0[..] != want[..25] {
                return Err(format!("hash_or_noop of a long input is not hash_no_pad (len {len})"));
            }
            Ok(format!("keccak:hash:{}", if len * 8 <= 25 { "noop" } else { "hashed" }))
        });
    }
    // two_to_one
    for k in 0..16u8 {
        ctx.case("keccak:two_to_one", &format!("keccak two_to_one #{k}"), || {
            let l: [u8; 25] = core::array::from_fn(|i| (i as u8).wrapping_mul(k).wrapping_add(k));
            let r: [u8; 25] = core::array::from_fn(|i| 0xFFu8.wrapping_sub((i as u8).wrapping_mul(k)));
            let mut cat = l.to_vec();
            cat.extend_from_slice(&r);
            let want = ref_keccak256(&cat);
            let got = <KeccakHash<25> as Hasher<F>>::two_to_one(plonky2::hash::hash_types::BytesHash(l), plonky2::hash::hash_types::BytesHash(r));
            if got.0[..] != want[..25] {
                return Err("KeccakHash<25>::two_to_one differs from Keccak-256(left || right)".into());
            }
            Ok("keccak:two_to_one".into())
        });
    }
    // the pseudo-permutation: field representation of H(s) || H(H(s)) || ... with rejection sampling
    let mut states: Vec<St> = vec![[0; 12], [P - 1; 12], [u64::MAX; 12]];
    for i in 0..40u64 {
        let mut seed = 0xC13_0000 + i;
        states.push(core::array::from_fn(|_| splitmix(&mut seed)));
        states.push(core::array::from_fn(|j| if j as u64 == i % 12 { vals[(i as usize) % vals.len()] } else { 0 }));
    }
    for (i, s) in states.iter().enumerate() {
        ctx.case("keccak:permutation", &format!("keccak permutation state#{i}"), || {
            let mut bytes: Vec<u8> = s.iter().flat_map(|x| (x % P).to_le_bytes()).collect();
            let mut out: Vec<u64> = Vec::new();
            let mut rejected = 0;
            while out.len() < 12 {
                let h = ref_keccak256(&bytes);
                for w in h.chunks(8) {
                    let v = u64::from_le_bytes(w.try_into().unwrap());
                    if v < P {
                        if out.len() < 12 {
                            out.push(v);
                        }
                    } else {
                        rejected += 1;
                    }
                }
                bytes = h.to_vec();
            }
            let got = keccak_perm(s);
            if got.iter().map(|x| x % P).collect::<Vec<_>>() != out {
                return Err("KeccakPermutation::permute differs from the documented hash onion with rejection sampling".into());
            }
            Ok(format!("keccak:permutation:rejected{}", rejected.min(1)))
        });
    }
}


/// Second exploration with degenerate absorb calls in the alphabet: E = observe_elements(&[]),
/// X = observe_extension_elements(&[]) (both must be no-ops: absorbing the same elements in ANY
/// chunking, empty chunks included, yields the same challenges), P = observe_elements of two values.
fn challenger_with_empty_absorbs(ctx: &Ctx) {
    let max_depth = if ctx.tier.thorough() { 11 } else { 9 };
    const OPS: [char; 5] = ['O', 'G', 'E', 'X', 'P'];
    fn rec(ctx: &Ctx, real: Challenger<F, PoseidonHash>, model: ModelChallenger, depth: usize, max_depth: usize, path: &mut String) {
        ctx.state(1);
        if depth == max_depth {
            let mut r = real.clone();
            let mut m = model.clone();
            let rs: Vec<u64> = r.compact().as_ref().iter().map(|x| x.0 % P).collect();
            ctx.trace(1);
            if rs[..] != m.compact(&ref_poseidon)[..] {
                ctx.violation("challenger:empty-absorbs:compact", format!("challenger ops={path}"), "compact() state differs from the model");
            }
            return;
        }
        for op in OPS {
            let mut r = real.clone();
            let mut m = model.clone();
            path.push(op);
            ctx.transition(1);
            ctx.tick(1);
            let mut ok = true;
            match op {
                'O' => {
                    let v = observed_value(depth);
                    r.observe_element(F(v));
                    m.observe(v, &ref_poseidon);
                }
                'E' => r.observe_elements(&[]),
                'X' => r.observe_extension_elements::<2>(&[]),
                'P' => {
                    let (a, b) = (observed_value(depth), observed_value(depth + 11));
                    r.observe_elements(&[F(a), F(b)]);
                    m.observe(a, &ref_poseidon);
                    m.observe(b, &ref_poseidon);
                }
                _ => {
                    let a = r.get_challenge().0 % P;
                    let b = m.get(&ref_poseidon);
                    if a != b {
                        ctx.violation("challenger:empty-absorbs:get_challenge", format!("challenger ops={path}"), format!("challenge {a} != model {b} (an empty absorb must be a no-op)"));
                        ok = false;
                    }
                }
            }
            if ok {
                rec(ctx, r, m, depth + 1, max_depth, path);
            }
            path.pop();
        }
    }
    // split on the first two operations
    let firsts: Vec<(char, char)> = OPS.iter().flat_map(|a| OPS.iter().map(move |b| (*a, *b))).collect();
    par_for(firsts.len(), |i| {
        // replay the 2-op prefix through the same code path by restricting the recursion
        let (a, b) = firsts[i];
        let mut real = Challenger::<F, PoseidonHash>::new();
        let mut model = ModelChallenger::new();
        let mut path = String::new();
        for (d, op) in [a, b].into_iter().enumerate() {
            path.push(op);
            match op {
                'O' => {
                    real.observe_element(F(observed_value(d)));
                    model.observe(observed_value(d), &ref_poseidon);
                }
                'E' => real.observe_elements(&[]),
                'X' => real.observe_extension_elements::<2>(&[]),
                'P' => {
                    let (x, y) = (observed_value(d), observed_value(d + 11));
                    real.observe_elements(&[F(x), F(y)]);
                    model.observe(x, &ref_poseidon);
                    model.observe(y, &ref_poseidon);
                }
                _ => {
                    let x = real.get_challenge().0 % P;
                    let y = model.get(&ref_poseidon);
                    if x != y {
                        ctx.violation("challenger:empty-absorbs:get_challenge", format!("challenger ops={path}"), format!("challenge {x} != model {y}"));
                        return;
                    }
                }
            }
        }
        rec(ctx, real, model, 2, max_depth, &mut path);
    });
    ctx.class(format!("challenger:empty-absorbs:depth{max_depth}"));
}
