#!/bin/bash
# (fast variant: the five tests that time out at 300 s on the UNCHANGED tree in this sandbox - BASELINE.json always_fail - are not run: they cannot tell a changed tree from the pristine one)
# usage: tools/confirm_seed_fast.sh <ID> "<check ids, space separated>" "<demo command (exit 0 = property holds)>" [<demo setup command run once per tree state>]
# Confirms a seeded change produced by an independent sub-agent (/tmp/seed-<ID>-out/{patch.diff,demo,meta.json}):
#  1. demo on the pristine worktree must PASS, 2. patch applies and compiles, demo must FAIL,
#  3. the repository's own test suite (baseline command) still passes on the seeded tree,
#  4. the registered check(s) are run against the seeded tree through run_on_tree.sh.
# Everything happens in the scratch worktree /tmp/seed-<ID>; /repo is never touched. Results are
# stored under /verif/seeded/<ID>/ (patch.diff, demo/, meta.json, confirm.log).
set -u
ID="$1"; CHECKS="$2"; DEMO="$3"; DEMOSETUP="${4:-true}"
WT=/tmp/seed-$ID; OUT=/tmp/seed-$ID-out; DST=/verif/seeded/$ID
mkdir -p "$DST"; LOG="$DST/confirm.log"; : > "$LOG"
say() { echo "$@" | tee -a "$LOG"; }
[ -d "$WT" ] || git -C /repo worktree add --detach "$WT" HEAD >/dev/null 2>&1
git -C "$WT" checkout -q -- . ; git -C "$WT" clean -fdq -e target -e .verif-out
git -C "$WT" checkout -q --detach "$(git -C /repo rev-parse HEAD)"
export CARGO_NET_OFFLINE=true RUST_LIB_BACKTRACE=0
say "== seed $ID at /repo $(git -C /repo rev-parse --short HEAD)"
# 1. pristine demo
( cd "$WT" && bash -c "$DEMOSETUP" ) >>"$LOG" 2>&1
( cd "$WT" && bash -c "$DEMO" ) >"$DST/demo_pristine.log" 2>&1; P=$?
say "demo on pristine tree: exit=$P (expected 0)"
# 2. seeded demo
git -C "$WT" checkout -q -- . ; git -C "$WT" clean -fdq -e target -e .verif-out
if ! git -C "$WT" apply "$OUT/patch.diff"; then say "PATCH DOES NOT APPLY"; exit 2; fi
( cd "$WT" && bash -c "$DEMOSETUP" ) >>"$LOG" 2>&1
( cd "$WT" && bash -c "$DEMO" ) >"$DST/demo_seeded.log" 2>&1; S=$?
say "demo on seeded tree: exit=$S (expected non-zero)"
# 3. repository test suite on the seeded tree (demo files removed first)
git -C "$WT" checkout -q -- . ; git -C "$WT" clean -fdq -e target -e .verif-out; git -C "$WT" apply "$OUT/patch.diff"
( cd "$WT" && CARGO_TARGET_DIR="$WT/target" cargo nextest run --workspace --no-fail-fast --tool-config-file pb:/w/lib/nextest.toml --profile pb --test-threads 8 --offline -E "not (test(=recursion::cyclic_recursion::tests::test_cyclic_recursion) or test(=recursion::recursive_verifier::tests::test_recursive_recursive_verifier) or test(=recursion::recursive_verifier::tests::test_recursive_verifier) or test(=recursion::recursive_verifier::tests::test_recursive_verifier_one_lookup) or test(=gadgets::arithmetic_extension::tests::test_div_extension))" ) >"$DST/suite_seeded.log" 2>&1
SUM="$(grep -E 'Summary' "$DST/suite_seeded.log" | tail -1)"
FAILS="$(grep -E '^\s+(FAIL|TIMEOUT)' "$DST/suite_seeded.log" | awk '{print $NF}' | sort -u | tr '\n' ' ')"
say "suite on seeded tree (without the 5 baseline always-timeout tests): $SUM"
say "suite failures/timeouts: ${FAILS:-none}  (baseline always_fail: test_div_extension test_cyclic_recursion test_recursive_recursive_verifier test_recursive_verifier test_recursive_verifier_one_lookup)"
# 4. the checks
for c in $CHECKS; do
  RUN_ON_TREE_TARGET=${SEED_CHECK_TARGET:-/tmp/seed-check.target} /verif/tools/run_on_tree.sh "$WT" "$c" --tier quick >"$DST/check_$c.log" 2>&1; R=$?
  say "check $c on seeded tree: exit=$R; $(grep -c '^VIOLATION' "$DST/check_$c.log") VIOLATION line(s); first: $(grep '^VIOLATION' "$DST/check_$c.log" | head -1 | cut -c1-260)"
done
git -C "$WT" checkout -q -- . ; git -C "$WT" clean -fdq -e target -e .verif-out
cp "$OUT/patch.diff" "$DST/patch.diff"; rm -rf "$DST/demo"; cp -r "$OUT/demo" "$DST/demo" 2>/dev/null; cp "$OUT/meta.json" "$DST/agent_meta.json" 2>/dev/null
rm -rf "$DST"/demo/target
tail -c 2000 "$DST/suite_seeded.log" > "$DST/suite_seeded.tail.log"; rm -f "$DST/suite_seeded.log"
say "done"
