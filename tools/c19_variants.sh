#!/bin/bash
# usage: tools/c19_variants.sh <quick|thorough>
# Builds the variant binaries of the harness that property C19 compares and prints (stdout, one line)
#   name=/abs/path/to/mc,name=/abs/path/to/mc,...
# which ./check hands to the driver as C19_VARIANT_BINS. Progress goes to stderr. Exit 2 = machinery error.
#
#   quick:    default (release, no `parallel`), seed1, seed2 (CONST_RANDOM_SEED=<k> at build time),
#             par (--features par; the driver runs it with RAYON_NUM_THREADS in {1,3,4}), avx2chk, avx512chk
#   thorough: + seed3..seed6, avx2, avx512 (RUSTFLAGS -C target-feature=...), checked (profile `checked`),
#             avx2chk, avx512chk (both; these are the very builds ./check makes for C13-C15, same target
#             directories <T>-avx2 / <T>-avx512, so they are normally up to date),
#             par is run with RAYON_NUM_THREADS in {1,...,8,16}
#
# Target directories are derived from ${CARGO_TARGET_DIR:-target} (relative to the harness directory, which is
# $VERIF_HARNESS_DIR or <here>/../harness, exactly as ./check resolves them) with a suffix:
#   <T>            default, checked           <T>-c19-seed   all seed variants, one after another
#   <T>-c19-par    par                        <T>-c19-avx2, <T>-c19-avx512
#   <T>-c19-bins   copies of the finished binaries (mc-<name>, with cargo's dep-info file and a stamp)
# The seed variants share one target directory (cargo re-builds ahash/const-random and their dependents when
# CONST_RANDOM_SEED changes); each finished binary is copied out. A copied binary is re-used without calling
# cargo as long as no file of its dep-info list (every source file of the harness and of the path dependencies
# under the repository) is newer than the stamp taken before its build started, and the manifests
# (Cargo.toml of the harness and of the path dependencies, Cargo.lock, rust-toolchain, this script) have the
# checksum recorded with the binary.
set -u
TIER="${1:-quick}"
HERE="$(cd "$(dirname "$0")" && pwd)"
SELF="$HERE/$(basename "$0")"
cd "${VERIF_HARNESS_DIR:-$HERE/../harness}" || exit 2
HARNESS="$PWD"
TGT="${CARGO_TARGET_DIR:-target}"
case "$TGT" in /*) ;; *) TGT="$HARNESS/$TGT" ;; esac
BINS="$TGT-c19-bins"
mkdir -p "$BINS" || exit 2
export CARGO_NET_OFFLINE=true
unset CONST_RANDOM_SEED RUSTFLAGS CARGO_ENCODED_RUSTFLAGS
say() { echo "c19_variants: $*" >&2; }
die() { echo "MACHINERY-ERROR c19_variants: $*" >&2; exit 2; }

# --- feature unification guard: ahash must keep compile-time keys (no per-process `runtime-rng`)
for feat in "" "--features par"; do
  tree="$(cargo tree --offline -e features -i ahash $feat 2>&1)" || die "cargo tree failed: $tree"
  if echo "$tree" | grep -q 'runtime-rng'; then
    die "ahash is built with feature runtime-rng ($feat): hash-map seeds would be per process, not per build"
  fi
  echo "$tree" | grep -q 'compile-time-rng' || die "ahash is not built with compile-time-rng ($feat)"
done

# manifests whose change invalidates every binary
MANIFESTS=("$HARNESS/Cargo.toml" "$HARNESS/Cargo.lock" "$HARNESS/rust-toolchain" "$SELF")
while read -r p; do
  case "$p" in /*) ;; *) p="$HARNESS/$p" ;; esac
  [ -f "$p/Cargo.toml" ] && MANIFESTS+=("$p/Cargo.toml")
done < <(grep -o 'path *= *"[^"]*"' Cargo.toml | sed 's/.*"\(.*\)"/\1/')
MSUM="$(cat "${MANIFESTS[@]}" | md5sum | cut -d' ' -f1)"

fresh() { # name -> 0 if $BINS/mc-<name> may be re-used
  local bin="$BINS/mc-$1" dep="$BINS/mc-$1.d" stamp="$BINS/mc-$1.stamp" f
  [ -x "$bin" ] && [ -f "$dep" ] && [ -f "$stamp" ] || return 1
  [ "$(cat "$BINS/mc-$1.msum" 2>/dev/null)" = "$MSUM" ] || return 1
  for f in $(sed 's/^[^:]*: *//' "$dep" | tr ' ' '\n' | grep -v '^$' | sort -u); do
    [ -e "$f" ] || return 1
    [ "$f" -nt "$stamp" ] && return 1
  done
  return 0
}

build_one() { # name target_dir profile [cargo args...]   (environment of the caller is inherited)
  local name="$1" tdir="$2" profile="$3"; shift 3
  if fresh "$name"; then say "$name: up to date"; return 0; fi
  local log="$BINS/build-$name.log" t0=$SECONDS
  touch "$BINS/mc-$name.stamp.new"
  if ! CARGO_TARGET_DIR="$tdir" cargo build --offline --profile "$profile" "$@" >"$log" 2>&1; then
    echo "MACHINERY-ERROR c19_variants: build of variant $name failed:" >&2
    grep -E '^error' -A12 "$log" | head -60 >&2
    return 2
  fi
  cp "$tdir/$profile/mc" "$BINS/mc-$name.tmp" && mv "$BINS/mc-$name.tmp" "$BINS/mc-$name" || return 2
  cp "$tdir/$profile/mc.d" "$BINS/mc-$name.d" || return 2
  echo "$MSUM" > "$BINS/mc-$name.msum"
  mv "$BINS/mc-$name.stamp.new" "$BINS/mc-$name.stamp"
  say "$name: built in $((SECONDS - t0)) s"
}

has_cpu() { local f; for f in "$@"; do grep -qw "$f" /proc/cpuinfo || return 1; done; }

# variant binaries only run `mc C19-keygen` / `mc C19-verify`: if the harness offers the feature `c19slim` (main.rs
# then leaves the other engines out) use it, the final crate is by far the most expensive compilation unit
SLIM=""; grep -q '^c19slim *=' Cargo.toml && SLIM="c19slim"
SEEDS="1 2"; [ "$TIER" = "thorough" ] && SEEDS="1 2 3 4 5 6"
NAMES=(default)
pids=()

# group A: the main target directory (./check has normally built `release` already)
( build_one default "$TGT" release || exit 2
  if [ "$TIER" = "thorough" ]; then build_one checked "$TGT" checked || exit 2; fi ) & pids+=($!)
# group B: seed variants, sequentially in one target directory
( for k in $SEEDS; do CONST_RANDOM_SEED="$k" build_one "seed$k" "$TGT-c19-seed" release ${SLIM:+--features $SLIM} || exit 2; done ) & pids+=($!)
for k in $SEEDS; do NAMES+=("seed$k"); done
# group C: parallel feature
( build_one par "$TGT-c19-par" release --features "par${SLIM:+,$SLIM}" || exit 2 ) & pids+=($!)
NAMES+=(par)
[ "$TIER" = "thorough" ] && NAMES+=(checked)
# SIMD builds: the checked AVX2 / AVX-512 builds are the ones ./check makes for C13-C15 anyway (same target
# directories), so they are part of the quick tier too; the release SIMD builds are thorough only
if has_cpu avx2; then
  ( RUSTFLAGS="-C target-feature=+avx2" build_one avx2chk "$TGT-avx2" checked || exit 2 ) & pids+=($!)
  NAMES+=(avx2chk)
  if [ "$TIER" = "thorough" ]; then
    ( RUSTFLAGS="-C target-feature=+avx2" build_one avx2 "$TGT-c19-avx2" release ${SLIM:+--features $SLIM} || exit 2 ) & pids+=($!)
    NAMES+=(avx2)
  fi
else say "avx2: CPU lacks the feature, variant skipped"; fi
if has_cpu avx512f avx512bw avx512cd avx512dq avx512vl; then
  ( RUSTFLAGS="-C target-feature=+avx512f,+avx512bw,+avx512cd,+avx512dq,+avx512vl" build_one avx512chk "$TGT-avx512" checked || exit 2 ) & pids+=($!)
  NAMES+=(avx512chk)
  if [ "$TIER" = "thorough" ]; then
    ( RUSTFLAGS="-C target-feature=+avx512f,+avx512bw,+avx512cd,+avx512dq,+avx512vl" build_one avx512 "$TGT-c19-avx512" release ${SLIM:+--features $SLIM} || exit 2 ) & pids+=($!)
    NAMES+=(avx512)
  fi
else say "avx512: CPU lacks the features, variant skipped"; fi
rc=0
for p in "${pids[@]}"; do wait "$p" || rc=2; done
[ $rc -eq 0 ] || exit 2

out=""
for n in "${NAMES[@]}"; do
  [ -x "$BINS/mc-$n" ] || die "variant $n has no binary"
  out="$out${out:+,}$n=$BINS/mc-$n"
done
echo "$out"
