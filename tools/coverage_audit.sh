#!/bin/bash
# Diagnostic (not a check, not registered in MANIFEST.json): which library source lines of /repo do the quick
# tiers never execute? Builds the harness with -C instrument-coverage in a scratch target directory, runs every
# quick engine (scalar build, C19 through its keygen subject only), merges the profiles and writes
#   $OUT/uncovered.txt   per anchored file: functions never entered, and line ranges never executed
# Everything lives under /tmp and is removed by the caller; nothing the registered commands need.
set -u
OUT="${1:-/tmp/cov-audit}"; T=/tmp/cov-target; mkdir -p "$OUT/raw" "$OUT/vout"
BIN_DIR="$(dirname "$(rustup which --toolchain nightly rustc)")/../lib/rustlib/x86_64-unknown-linux-gnu/bin"
cd /verif/harness || exit 2
export CARGO_NET_OFFLINE=true RUST_LIB_BACKTRACE=0 VERIF_NO_SIMD=1
RUSTFLAGS="-C instrument-coverage" CARGO_TARGET_DIR=$T cargo build --release --offline 2>&1 | tail -2
for id in C17 C04 C11 C20 C16 C06 C12 C13 C14 C15 C05 C07 C10 C09 C08 C03 C02 C18 C01; do
  echo "== $id $(date +%H:%M)"
  LLVM_PROFILE_FILE="$OUT/raw/$id-%p.profraw" VERIF_OUT="$OUT/vout" VERIF_TIER=quick VERIF_WORKERS=6 nice -n 10 $T/release/mc $id --tier quick 2>&1 | grep "tier=" | cut -c1-160
done
LLVM_PROFILE_FILE="$OUT/raw/C19-%p.profraw" nice -n 10 $T/release/mc C19-keygen "$OUT/vout/c19" >/dev/null 2>&1
"$BIN_DIR/llvm-profdata" merge -sparse "$OUT"/raw/*.profraw -o "$OUT/all.profdata" || exit 2
"$BIN_DIR/llvm-cov" export -format=lcov -instr-profile="$OUT/all.profdata" $T/release/mc > "$OUT/all.lcov" 2>/dev/null
python3 /verif/tools/coverage_report.py "$OUT/all.lcov" > "$OUT/uncovered.txt"
echo "written $OUT/uncovered.txt"
