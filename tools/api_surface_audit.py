#!/usr/bin/env python3
"""Diagnostic: public functions of the library crates that neither the harness nor the library itself calls
(by name). A name-based approximation (no type resolution): used to find API routes the checks never take."""
import re, os, sys, collections
def rs_files(root):
    for d, _, fs in os.walk(root):
        if '/target' in d: continue
        for f in fs:
            if f.endswith('.rs'): yield os.path.join(d, f)
def strip_tests(src):
    i = src.find('#[cfg(test)]')
    return src if i < 0 else src[:i]
lib = {}
for crate in ['plonky2', 'starky', 'field', 'util', 'maybe_rayon']:
    for f in rs_files(f'/repo/{crate}/src'):
        lib[f] = strip_tests(open(f).read())
harness = '\n'.join(open(f).read() for f in rs_files('/verif/harness/src'))
alltext = '\n'.join(lib.values())
defs = []
for f, src in lib.items():
    for m in re.finditer(r'^\s*pub(?:\([a-z]+\))?\s+(?:const\s+)?(?:unsafe\s+)?fn\s+([A-Za-z0-9_]+)', src, re.M):
        if 'pub(' in m.group(0): continue
        defs.append((f, m.group(1), src[:m.start()].count('\n') + 1))
out = collections.defaultdict(list)
for f, name, line in defs:
    pat = re.compile(r'(?<!fn )\b' + re.escape(name) + r'\s*(?:::<[^;{]*?>)?\s*\(')
    n_lib = len(pat.findall(alltext))
    n_h = len(re.findall(r'\b' + re.escape(name) + r'\b', harness))
    if n_lib <= 0 and n_h == 0:
        out[f].append((line, name))
for f in sorted(out):
    print(f)
    for line, name in sorted(out[f]):
        print(f'   {line}: {name}')
