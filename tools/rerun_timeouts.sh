#!/bin/bash
# usage: tools/rerun_timeouts.sh <ID> <test name filter>...  -- re-runs, on the seeded tree, tests of the repository suite
# that timed out during confirmation (machine load), with the same nextest profile; appends the outcome to confirm.log.
set -u
ID="$1"; shift
WT=/tmp/seed-$ID; DST=/verif/seeded/$ID; LOG="$DST/confirm.log"
[ -d "$WT" ] || git -C /repo worktree add --detach "$WT" HEAD >/dev/null 2>&1
git -C "$WT" checkout -q -- . ; git -C "$WT" clean -fdq -e target -e .verif-out
git -C "$WT" checkout -q --detach "$(git -C /repo rev-parse HEAD)"
git -C "$WT" apply "$DST/patch.diff" || { echo "PATCH DOES NOT APPLY" | tee -a "$LOG"; exit 2; }
export CARGO_NET_OFFLINE=true
sed -i '/^done$/d' "$LOG"
( cd "$WT" && CARGO_TARGET_DIR="$WT/target" cargo nextest run --workspace --no-fail-fast --tool-config-file pb:/w/lib/nextest.toml --profile pb --test-threads 2 --offline "$@" ) > "$DST/rerun.log" 2>&1
# the nextest profile prints no per-test PASS lines: all requested tests passed iff the summary says "N tests run: N passed"
PASSED=""; SUMLINE="$(grep -E 'Summary' "$DST/rerun.log" | tail -1)"
if echo "$SUMLINE" | grep -Eq '([0-9]+) tests? run: \1 passed'; then PASSED="$*"; fi
echo "rerun of tests that timed out under load: $(grep -E 'Summary' "$DST/rerun.log" | tail -1); passed: $PASSED" | tee -a "$LOG"
echo done >> "$LOG"
git -C "$WT" checkout -q -- .
