#!/usr/bin/env python3
"""Builds /verif/seeded/<ID>/meta.json from the sub-agent's meta and the confirmation log, and the
summary table /verif/seeded/README.md."""
import json, os, re, glob
rows = []
for d in sorted(glob.glob('/verif/seeded/C*')):
    sid = os.path.basename(d)
    log = open(f'{d}/confirm.log').read() if os.path.exists(f'{d}/confirm.log') else ''
    am = {}
    try: am = json.load(open(f'{d}/agent_meta.json'))
    except Exception: pass
    def grab(pat, default=None):
        m = re.search(pat, log)
        return m.group(1) if m else default
    demo_p = grab(r'demo on pristine tree: exit=(\d+)')
    demo_s = grab(r'demo on seeded tree: exit=(\d+)')
    suite = grab(r'suite on seeded tree[^:]*:\s*(.*)')
    fails = grab(r'suite failures/timeouts: (.*?)\s+\(baseline')
    checks = re.findall(r'check (C\d+) on seeded tree: exit=(\d+); (\d+) VIOLATION line\(s\); first: (.*)', log)
    detected = [c for c, rc, n, _ in checks if rc == '1' and int(n) > 0]
    baseline_timeouts = {'test_div_extension','test_cyclic_recursion','test_recursive_recursive_verifier','test_recursive_verifier','test_recursive_verifier_one_lookup'}
    rerun_passed = set((grab(r'rerun of tests that timed out under load: .*?passed: (.*)') or '').split())
    extra_fail = [f for f in (fails or '').split() if f.split('::')[-1] not in baseline_timeouts and f != 'none' and f not in rerun_passed and f.split('::')[-1] not in rerun_passed]
    meta = {
        'property': sid[:3],
        'breaks': am.get('summary') or am.get('property'),
        'needs_to_manifest': am.get('needs'),
        'files': am.get('files'),
        'produced_by': 'independent sub-agent given only the property text (prompt: tools/seed_prompts/%s.txt)' % sid,
        'what_i_ran': [
            'tools/confirm_seed.sh: demo on the pristine worktree, patch applied + demo again, the repository suite (cargo nextest, baseline command) on the seeded tree, then the registered quick checks through tools/run_on_tree.sh',
        ],
        'suite_note': ('the five tests that time out at 300 s on the unchanged tree in this sandbox (BASELINE.json always_fail) were left out of the suite run for this seed (tools/confirm_seed_fast.sh): they cannot distinguish a changed tree' if 'without the 5 baseline' in log else 'full baseline command'),
        'confirmation': {
            'demo_exit_pristine': demo_p, 'demo_exit_seeded': demo_s,
            'suite_on_seeded_tree': suite, 'timeouts_rerun_and_passed': sorted(rerun_passed), 'suite_failures_beyond_baseline_timeouts': extra_fail,
            'checks': [{'check': c, 'exit': int(rc), 'violation_lines': int(n), 'first': first[:300]} for c, rc, n, first in checks],
        },
        'confirmed': demo_p == '0' and demo_s not in (None, '0') and not extra_fail and suite is not None,
        'detected_by': detected,
    }
    json.dump(meta, open(f'{d}/meta.json', 'w'), indent=1)
    rows.append((sid, (am.get('summary') or '')[:200].replace('\n', ' '), (am.get('needs') or '')[:200].replace('\n', ' '), 'yes' if meta['confirmed'] else 'NO', ', '.join(detected) or 'MISSED'))
with open('/verif/seeded/README.md', 'w') as f:
    f.write('# Seeded changes (produced by independent sub-agents from the property text only)\n\n')
    f.write('Each directory holds `patch.diff` (the change), `demo/` (fails with the change, passes without), `meta.json`, `confirm.log`.\n')
    f.write('None of these changes is ever committed to /repo; checks are run against a scratch worktree (tools/run_on_tree.sh).\n\n')
    f.write('| seed | change | needs | confirmed (demo +/-, suite green) | reported by |\n|---|---|---|---|---|\n')
    for r in rows:
        f.write('| %s | %s | %s | %s | %s |\n' % r)
print('\n'.join('%s confirmed=%s detected=%s' % (r[0], r[3], r[4]) for r in rows))
