#!/bin/bash
# usage: tools/try_seed.sh <patch.diff> <check id> [more ids]  — applies the patch in the scratch worktree
# /tmp/mut-wt (reset to /repo HEAD), runs the quick checks against it, reverts. Never touches /repo.
set -u
PATCH="$1"; shift
WT=/tmp/mut-wt
[ -d "$WT" ] || git -C /repo worktree add --detach "$WT" HEAD >/dev/null 2>&1
git -C "$WT" checkout -q -- . ; git -C "$WT" clean -fdq -e target -e .verif-out
git -C "$WT" checkout -q --detach "$(git -C /repo rev-parse HEAD)"
git -C "$WT" apply "$PATCH" || { echo "PATCH DOES NOT APPLY"; exit 3; }
for c in "$@"; do
  RUN_ON_TREE_TARGET=/tmp/mut-wt.target /verif/tools/run_on_tree.sh "$WT" "$c" --tier quick 2>&1 | grep -v KNOWN | grep "VIOLATION\|tier=\|MACHINERY" | cut -c1-330 | tail -4
done
git -C "$WT" checkout -q -- .
