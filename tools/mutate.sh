#!/bin/bash
# usage: tools/mutate.sh <patch-file | -e 'file:::old:::new'> <ID> [tier]
# Detection demo WITHOUT touching /repo: makes (or reuses) the scratch worktree $MUT_WT (default /tmp/mut-wt) of
# /repo's HEAD, applies the change there, runs the check against it through run_on_tree.sh and
# restores the worktree.
set -u
WT="${MUT_WT:-/tmp/mut-wt}"
if [ ! -d "$WT" ]; then git -C /repo worktree add --detach "$WT" HEAD >/dev/null 2>&1 || exit 2; fi
git -C "$WT" checkout -q --detach "$(git -C /repo rev-parse HEAD)" 2>/dev/null; git -C "$WT" checkout -q -- . 
if [ "$1" = "-e" ]; then
  python3 - "$WT" "$2" <<'PY' || exit 3
import sys
wt,spec=sys.argv[1:3]
f,old,new=spec.split(':::')
p=wt+'/'+f
s=open(p).read()
if old not in s: print("pattern not found"); sys.exit(3)
open(p,'w').write(s.replace(old,new,1))
PY
  shift 2
else
  git -C "$WT" apply "$1" || exit 3; shift
fi
ID="$1"; TIER="${2:-quick}"
git -C "$WT" --no-pager diff --stat
RUN_ON_TREE_TARGET="$WT.target" /verif/tools/run_on_tree.sh "$WT" "$ID" --tier "$TIER" | tail -6
echo "exit=${PIPESTATUS[0]}"
git -C "$WT" checkout -q -- .
