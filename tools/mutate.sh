#!/bin/bash
# usage: tools/mutate.sh <file-under-/repo> <python-regex-old> <new> <ID> [tier]
# Applies a one-off textual mutation to /repo, runs ./check <ID>, reverts. For detection demos only.
set -u
FILE="$1"; OLD="$2"; NEW="$3"; ID="$4"; TIER="${5:-quick}"
cd /repo || exit 2
if ! git diff --quiet; then echo "repo dirty, refusing"; exit 2; fi
python3 - "$FILE" "$OLD" "$NEW" <<'PY'
import sys,re
f,old,new=sys.argv[1:4]
s=open(f).read()
if old not in s:
    print("pattern not found"); sys.exit(3)
s=s.replace(old,new,1)
open(f,'w').write(s)
PY
rc=$?
if [ $rc -ne 0 ]; then git checkout -- .; exit $rc; fi
git --no-pager diff --stat
cd /verif && ./check "$ID" --tier "$TIER" | tail -4
echo "exit=$?"
git -C /repo checkout -- .
