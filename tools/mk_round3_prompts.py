#!/usr/bin/env python3
"""Round-3 seed prompts (suffix c): property text only, plus the files/functions the two earlier changes touched."""
import json, os, sys
for pid in sys.argv[1:]:
    src = '/verif/tools/seed_prompts/%s.txt' % pid
    prev = []
    for sfx in ['', 'b']:
        for f in ('/verif/seeded/%s%s/agent_meta.json' % (pid, sfx), '/tmp/seed-%s%s-out/meta.json' % (pid, sfx)):
            if os.path.exists(f):
                m = json.load(open(f)); prev.append((', '.join(m.get('files') or []), (m.get('summary') or '').split('. ')[0][:260])); break
    t = open(src).read().replace('seed-%s' % pid, 'seed-%sc' % pid)
    extra = ''.join("- Another engineer has ALREADY produced a seeded change for this property in %s (%s). " % p for p in prev)
    extra = extra + "Yours must be in a DIFFERENT function (preferably a different file) than all of those and exploit a different mechanism.\n"
    t = t.replace('\nThe property (', '\n' + extra + '\nThe property (', 1)
    open('/verif/tools/seed_prompts/%sc.txt' % pid, 'w').write(t)
    print(pid + 'c', len(prev))
