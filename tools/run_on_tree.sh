#!/bin/bash
# usage: tools/run_on_tree.sh <tree> <ID> [--tier quick|thorough] [extra args]
# Runs the check for property <ID> against a copy of the repository at <tree> (a scratch git
# worktree of /repo, e.g. with a seeded change applied) WITHOUT touching /repo or /verif/evidence:
# the harness sources are copied next to the tree with their path dependencies rewritten, built
# (source: $HARNESS_SRC, default /verif/harness) in their own target directory, and evidence/replays are written under <tree>/.verif-out.
set -u
TREE="$(cd "$1" && pwd)"; shift
ID="$1"
SCR="${TREE}.harness"
mkdir -p "$SCR" "$TREE/.verif-out"
rsync -a --delete --exclude 'target*' "${HARNESS_SRC:-/verif/harness}/" "$SCR/"
sed -i "s#/repo/#$TREE/#g" "$SCR/Cargo.toml"
cp "$TREE/Cargo.lock" "$SCR/Cargo.lock" 2>/dev/null || true
cp /verif/harness/Cargo.lock "$SCR/Cargo.lock"
export VERIF_OUT="$TREE/.verif-out"
export VERIF_REPO="$TREE"
export CARGO_TARGET_DIR="${RUN_ON_TREE_TARGET:-$SCR/target}"
export VERIF_HARNESS_DIR="$SCR"
exec /verif/check "$@"
