#!/usr/bin/env python3
"""lcov -> per file under /repo/{plonky2,starky,field,util,maybe_rayon}/src: functions whose every line has
count 0, and other never-executed line ranges (test modules skipped)."""
import re, sys, collections
files = collections.defaultdict(dict)
cur = None
for line in open(sys.argv[1]):
    line = line.strip()
    if line.startswith('SF:'):
        cur = line[3:]
    elif line.startswith('DA:') and cur:
        ln, cnt = line[3:].split(',')[:2]
        ln = int(ln); cnt = int(cnt)
        files[cur][ln] = max(files[cur].get(ln, 0), cnt)
tot = unc = 0
for f in sorted(files):
    if not f.startswith('/repo/') or '/src/' not in f:
        continue
    try:
        src = open(f).read().split('\n')
    except Exception:
        continue
    # cut test modules
    test_start = next((i + 1 for i, l in enumerate(src) if re.match(r'\s*#\[cfg\(test\)\]', l)), len(src) + 1)
    da = {l: c for l, c in files[f].items() if l < test_start}
    if not da:
        continue
    # function spans: from a line with `fn name` to the next such line
    fns = [(i + 1, m.group(1)) for i, l in enumerate(src[:test_start - 1]) for m in [re.search(r'\bfn\s+([A-Za-z0-9_]+)', l)] if m and not l.strip().startswith('//')]
    fns.append((test_start, None))
    out = []
    for k in range(len(fns) - 1):
        a, name = fns[k]; b = fns[k + 1][0]
        lines = [l for l in da if a <= l < b]
        if not lines:
            continue
        zero = [l for l in lines if da[l] == 0]
        tot += len(lines); unc += len(zero)
        if len(zero) == len(lines):
            out.append(f'  NEVER ENTERED  {name} (line {a}, {len(lines)} lines)')
        elif zero:
            zero.sort()
            rngs = []; s = p = zero[0]
            for z in zero[1:]:
                if z > p + 2:
                    rngs.append((s, p)); s = z
                p = z
            rngs.append((s, p))
            out.append(f'  partial        {name} (line {a}): never executed ' + ', '.join(f'{x}-{y}' if x != y else f'{x}' for x, y in rngs))
    if out:
        print(f)
        print('\n'.join(out))
print(f'TOTAL instrumented lines {tot}, never executed {unc}')
