#!/usr/bin/env python3
"""Round-2 seed prompts: same text as round 1 (property text only), a different scratch worktree name, and
one extra rule naming the file/function the round-1 change touched so that the new change uses another mechanism."""
import json, os, re, sys
for n in range(1, 21):
    pid = 'C%02d' % n
    src = '/verif/tools/seed_prompts/%s.txt' % pid
    meta = None
    for f in ('/verif/seeded/%s/agent_meta.json' % pid, '/tmp/seed-%s-out/meta.json' % pid):
        if os.path.exists(f):
            meta = json.load(open(f)); break
    if meta is None:
        continue
    t = open(src).read().replace('seed-%s' % pid, 'seed-%sb' % pid)
    files = ', '.join(meta.get('files') or [])
    first = (meta.get('summary') or '').split('. ')[0][:300]
    extra = ("- A different engineer has ALREADY produced a seeded change for this property in %s (%s). Yours must be in a DIFFERENT function "
             "(preferably a different file) and exploit a different mechanism; do not redo that one.\n" % (files, first))
    t = t.replace('\nThe property (', '\n' + extra + '\nThe property (', 1) if extra not in t else t
    open('/verif/tools/seed_prompts/%sb.txt' % pid, 'w').write(t)
    print(pid + 'b')
