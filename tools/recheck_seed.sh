#!/bin/bash
# usage: tools/recheck_seed.sh <ID> "<check ids>"  -- re-runs registered quick checks against the stored seeded change
# (/verif/seeded/<ID>/patch.diff) in a scratch worktree at /repo's current HEAD; replaces the check lines in confirm.log.
set -u
ID="$1"; CHECKS="$2"; WT=/tmp/seed-$ID; DST=/verif/seeded/$ID; LOG="$DST/confirm.log"
[ -d "$WT" ] || git -C /repo worktree add --detach "$WT" HEAD >/dev/null 2>&1
git -C "$WT" checkout -q -- . ; git -C "$WT" clean -fdq -e target -e .verif-out
git -C "$WT" checkout -q --detach "$(git -C /repo rev-parse HEAD)"
if ! git -C "$WT" apply "$DST/patch.diff"; then echo "PATCH DOES NOT APPLY to $(git -C /repo rev-parse --short HEAD)" | tee -a "$LOG"; exit 2; fi
export CARGO_NET_OFFLINE=true RUST_LIB_BACKTRACE=0
sed -i '/^done$/d' "$LOG"
for c in $CHECKS; do
  sed -i "/^check $c on seeded tree/d" "$LOG"
  RUN_ON_TREE_TARGET=${SEED_CHECK_TARGET:-/tmp/seed-check.target} /verif/tools/run_on_tree.sh "$WT" "$c" --tier quick >"$DST/check_$c.log" 2>&1; R=$?
  echo "check $c on seeded tree: exit=$R; $(grep -c '^VIOLATION' "$DST/check_$c.log") VIOLATION line(s); first: $(grep '^VIOLATION' "$DST/check_$c.log" | head -1 | cut -c1-260)" | tee -a "$LOG"
done
echo "rechecked at /repo $(git -C /repo rev-parse --short HEAD)" | tee -a "$LOG"; echo done >> "$LOG"
git -C "$WT" checkout -q -- . ; git -C "$WT" clean -fdq -e target -e .verif-out
