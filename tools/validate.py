#!/usr/bin/env python3
"""Validates MANIFEST.json and every evidence file against the schemas (run with python3-vt)."""
import json, sys, glob, jsonschema
ok = True
try:
    jsonschema.validate(json.load(open('/verif/MANIFEST.json')), json.load(open('/root/.vp/MANIFEST.schema.json')))
    print('MANIFEST ok')
except Exception as e:
    ok = False; print('MANIFEST INVALID', str(e)[:300])
es = json.load(open('/root/.vp/EVIDENCE.schema.json'))
m = json.load(open('/verif/MANIFEST.json'))
for c in m['checks']:
    f = c['evidence_file']
    try:
        ev = json.load(open(f)); jsonschema.validate(ev, es)
        assert ev['level'] == c['level_claimed']['category'], 'level mismatch'
        print(c['property_id'], 'ok', ev['tier'], ev['coverage'].get('evaluations'), ev['coverage'].get('distinct_nontrivial'), round(ev['wall_s'],1))
    except Exception as e:
        ok = False; print(c['property_id'], 'INVALID', str(e)[:300])
sys.exit(0 if ok else 1)
