#!/usr/bin/env python3
"""Regenerates MANIFEST.json from the table below (kept in one place so it stays valid)."""
import json, subprocess

CHECKS = {
 # id: (level, technique, text, note, design_ref)
 "C01": ("exploration",
         "bounded exhaustive enumeration of circuit programs (all depth-1 gadget programs x operand bindings, all depth-2 chains, catalogue) x boundary input vectors x single-axis configuration deviations, against direct evaluation over the field and an exact satisfaction oracle; real prove/verify on a subset containing every depth-1 program and every configuration",
         "Every depth-1 program over ~170 gadget templates (arithmetic, extension arithmetic, bit/limb decomposition, range checks, selection, random access, exponentiation, Poseidon hashing, Merkle membership, reductions, lookups) with every operand aliasing, every depth-2 chain, and a catalogue of compositions; inputs = full product of boundary alphabets (0,1,2,p-1,p-2,2^32-1,2^32,2^63 and per-gadget range boundaries). For every (program, input): real witness generation, public inputs compared with an independent direct evaluation, and the generated witness checked by the exact satisfaction oracle (gate constraints from the committed constants, copy classes, sigma-vs-class static invariant); unsatisfying inputs must not yield a satisfying witness. Proof level (prove, verify, verifier_data().verify, compress, verify_compressed, public inputs) for 2-3 inputs of every depth-1 program and for catalogue x 28 configuration deviations (zk, rate, cap, queries, pow, all three reduction strategies, challenge count, quotient factor, wire widths, Keccak); thorough adds all pairs of deviations.",
         "trusted: harness u128 arithmetic, textbook Poseidon (c13.rs), the gates' own eval_unfiltered inside the satisfaction oracle (gate-level strength is C07's job); admissibility = the builder's own documented asserts",
         "DESIGN.md §4 C01"),
 "C02": ("fault_enumeration",
         "exhaustive single-deviation fault enumeration against the real prover and verifier: every cell / every copy class of the witness corrupted through an identity-representative-map witness, every adversarial prover strategy (knobs) alone and combined; expected verdict decided exactly by an independent satisfaction oracle",
         "For each subject circuit (arithmetic+range+boolean+equality assertions, Poseidon+Merkle membership, two lookup tables, random access+exponentiation+extension arithmetic; thorough adds base-sum/division and extension-division circuits and 10 configurations incl. 1/3 challenges, quotient factors 7/16, 25/136 routed wires, zero-knowledge) and each satisfying base input: every target index (all rows x all routed and advice columns incl. padding and public-input rows, and every virtual target incl. public inputs) is corrupted individually with copy classes broken, every copy class is corrupted consistently, and the prover is driven with: lenient quotient truncation, all-zero and constant permutation accumulator, quotient perturbed for each challenge index, chosen proof-of-work witnesses, lenient lookup multiplicities - alone and combined with corruptions. Whatever the real proving API emits is handed to the real verifier; acceptance must coincide exactly with sat(assignment) (gate constraints from committed constants, copy classes, public-input hash binding, combinatorial lookup predicate) and never occur under a degenerate strategy. Unconstrained cells must still be accepted (no-false-alarm half).",
         "trusted: the gates' own eval_unfiltered inside sat (C07 checks the gates), harness restatement of lookup padding, Poseidon reference; rejection of a false quotient identity holds except with probability ~2^-110 independent of FRI parameters",
         "DESIGN.md §4 C02"),
 "C03": ("fault_enumeration",
         "exhaustive single-element fault enumeration over the serde tree of accepted proofs (every leaf x value mutations, every list/map node x structural mutations, plain and compressed form, every other circuit's verifier data), plus the FRI part under fixed challenges",
         "For accepted proofs of the subject circuits (incl. lookups, salted zero-knowledge oracles, Keccak, arity-2 and arity-4 FRI schedules with several reduction steps; configurations meeting the verdict floor q*log2(lde) >= 40): EVERY numeric leaf of the proof tree (caps, all openings, every query round's leaves, salts, siblings, coset evaluations, commit-phase caps, final polynomial, pow witness, public inputs) is changed and the real verifier must reject; every list node is dropped-from / emptied / duplicated / swapped / extended; the same on the compressed proof through verify_compressed, where the redundant `indices` list must leave the verdict unchanged; each proof is presented with every other circuit's verifier data, verifier-only data and common data; and every FRI-part / cap / opening leaf is re-checked under the honest proof's FIXED challenges through verify_fri_proof so that an element no algebraic check reads cannot hide behind Fiat-Shamir re-randomisation.",
         "trusted: serde round trip of proof types (exact u64); chance acceptance bounded by the verdict floor; single-element edits only",
         "DESIGN.md §4 C03"),
 "C16": ("exploration",
         "bounded enumeration of query-index multisets by steering the proof-of-work witness through the real prover (every witness 0..N at pow bits 0), x arity schedules x cap heights x query counts; oracle = identity of decompress(compress(p)), byte round trip, and agreement of verify / verify_compressed",
         "For two circuits (plain, lookups) x 7 Fixed arity schedules x cap heights x query counts the real prover is run with every pow witness 0..N (quick 260, thorough 4000): each witness gives a different query-index tuple for the same statement, so equal indices, indices sharing a coset at layer 0/1/2 only and shared cap sub-trees all occur (collision patterns are measured and reported; a run without a full coincidence is a machinery error). Every proof: compress -> decompress identical, compressed to_bytes/from_bytes identical, verify and verify_compressed both accept. Plus one round trip per subject x single-axis configuration deviation (blinding/salts, lookups, three reduction strategies, caps), and verification equivalence on leaf-tampered proofs: verify(p') <=> verify_compressed(compress(p')) whenever compress(p') differs from the honest compression.",
         "trusted: the H1d knob only replaces the grinding search; index tuples are those reached by N witnesses (distinct multisets reported), path compression over ALL index tuples is C12's part",
         "DESIGN.md §4 C16"),
 "C05": ("model_checking",
         "bounded exhaustive product enumeration (oracle shapes x degrees x opening structures x parameter tuples x coefficient families) plus single-fault enumeration, every explored FRI proof checked against an independent naive FRI verifier under fixed challenges (exact verdict agreement); complete-domain enumeration of the arity-schedule parameter function",
         "On the complete parameter domain (degree bits <= 20, rate <= 5, cap <= 8, 382 strategies: all Fixed schedules over {1..4}^<=4, ConstantArityBits, MinSize) the arity schedules never fold below the cap or the degree and leave a final polynomial of the advertised length (MinSize compared with a DP optimum). For every enumerated oracle shape (1-3 oracles x 1-3 polynomials, blinding per oracle), degree <= 2^5, opening structure, parameter tuple and coefficient family, honest plain and batch FRI opening proofs are accepted. For every honest proof and every single deviation (false opening with consistent transcript, adversarial first layer, over-degree commitment, insufficient grinding via the pow-witness knob, each proof element +1, each array drop/empty/duplicate, initial-cap edits; the same on BatchFriOracle with 2-4 degrees) verify_fri_proof / verify_batch_fri_proof return exactly the verdict of the naive reference verifier, and none of the deviations is accepted (probabilistic ones asserted only above q*rate >= 40 or q*lde_bits >= 40).",
         "trusted: Poseidon hash_or_noop / two_to_one (C13), Goldilocks generator constants (re-checked), serde images of FriProof, library FFT / Merkle builders on the prover/driver side only; toy sizes (d <= 5, <= 28 queries), single deviations",
         "DESIGN.md §4 C05"),
 "C06": ("fault_enumeration",
         "differential fault enumeration: for every inner proof of an enumerated set (honest, every leaf tampered, every list mutated, adversarial false statements, wrong verifier data) compare the native verdict with (library assignment routines + witness generation + exact satisfaction oracle on an outer verifier circuit built once)",
         "For each (inner circuit incl. lookups, inner FRI configuration with arity 2 / 4 / 8 / 16 reductions, caps 0-4, 1-3 challenges, zero-knowledge; outer configuration standard / wide / zero-knowledge): honest inner proofs are accepted natively and in-circuit and the outer proof is produced, verifies and re-exposes the inner public inputs; EVERY numeric leaf of the inner proof changed, every list node dropped-from / duplicated / swapped, inner proofs of false statements emitted by the real prover under adversarial strategies (corrupted cells, zero / constant accumulator, lenient quotient, quotient perturbed for each challenge index, chosen pow witnesses, lenient lookups), every element of the verifier data changed and other circuits' verifier data: native verify is Ok <=> the assignment derived through set_proof_with_pis_target / set_verifier_data_target passes witness generation AND satisfies the outer circuit.",
         "trusted: exact satisfaction oracle (plonkm.rs; gate evaluators are C07's), Keccak inner proofs are inadmissible in-circuit; the native verdict is computed per case so no verdict floor is needed",
         "DESIGN.md §4 C06"),
 "C09": ("fault_enumeration",
         "bounded exhaustive exploration of a parametric model-STARK family x trace lengths x the StarkConfig lattice with an exact independent oracle (row-by-row trace checker); every single-cell corruption, every public-input change, every proof leaf/list tamper",
         "For a 20-definition model-STARK family defined through the public Stark trait (1-8 columns, 0/1/3 public inputs, constraint degrees 0 (no quotient), 1, 2, 3, 4 (quotient factor 3, lenient-truncation knob), 5, 9 = blowup+1; first-row, last-row, transition and every-row terms) x trace lengths 4..16 (thorough 4..64) x the full StarkConfig lattice (rate 1-3, cap 0/1(/3), 1-3 challenges, 5 reduction strategies, pow/query deviations): the honest trace for 3 public-input choices is proven and accepted; EVERY single-cell replacement {v+1, 0} (first, last, interior, wrap-around rows) and every public-input change gets exactly the verdict of the independent row-by-row trace checker - cells no constraint pins must still be accepted; every numeric leaf / list node of accepted proofs tampered under q*log2(lde) >= 40 and every proof verified under another equal-shape definition it violates is not accepted.",
         "trusted: core.rs mod-p arithmetic, starkm::check_trace and the trace generators (self-checked at start-up), serde exactness; the alphas-reuse class (only challenge 0 checked) is not observable without a prover-side quotient knob in starky",
         "DESIGN.md §4 C09"),
 "C10": ("fault_enumeration",
         "bounded exhaustive exploration of lookup declarations and cross-table-lookup topologies x trace lengths x configs with exact multiset oracles (BTreeMap counters); every single-cell corruption of looking side, looked side, frequencies; proof tampers",
         "15 lookup declarations (1/2/3/5 looking columns crossing the helper batch size at degree 2 and 3; single / linear-combination / next-row columns; no / boolean / product filters; counter, permuted, repeated and large-value tables; two lookups in one STARK; next-row table column) x lengths 8..16 (thorough 4..64) x up to 37 configs, and 6 cross-table topologies (A->B, A,C->B, A,A->B, A,C,A->B, self, extra looking values) with 1-3 challenges through a multi-table driver that follows the crate's documented flow: honest systems are proven and accepted, and EVERY single-cell change of every table gets exactly the verdict of the oracle (sum of looking filter weights == sum of table frequencies per value; weighted multiset equality for CTLs); proof tampers and cross-declaration verification are not accepted.",
         "trusted: starkm::check_lookups / check_ctls, the CTL driver glue (harness code following starky's documented multi-table flow), serde exactness",
         "DESIGN.md §4 C10"),
 "C12": ("model_checking",
         "bounded exhaustive enumeration of trees (leaf counts x cap heights x widths x hashers x leaf families) against a level-by-level reference tree with the complete single-deviation negative set per position; stateless choice-point DFS over ALL fork-join orders of the tree construction (join chooser hook)",
         "For Poseidon and Keccak, MerkleTree and BatchMerkleTree (every strictly decreasing height profile of <= 3 layers) produce exactly the cap, digest layout and sibling paths of pairwise level-by-level hashing, under EVERY fork-join order of fill_subtree for trees up to 8 (thorough 16) leaves and every order with <= 2 right-first decisions for larger ones (each schedule executed twice; divergence is a machinery error). Every honest opening verifies; every opening with another leaf of the same width, another or out-of-range index, any edited sibling element, any edited element of the path's cap entry, or a truncated/extended sibling list is not accepted; equal leaves and unrelated cap entries cause no false rejection. Compressed multi-proofs decompress to exactly the original proofs for ALL index tuples of length <= 3 (4) incl. repetitions, each verifies, and no compressed sibling is unused.",
         "trusted: Hasher::hash_or_noop / two_to_one (C13; the hash_or_noop threshold is pinned separately), the verif_sched chooser hook, harness reference tree in c12.rs; real-thread data races are outside any cooperative explorer",
         "DESIGN.md §4 C12"),
 "C13": ("model_checking",
         "explicit-state exploration of the challenger state machine (all observe/get sequences up to a depth) against a reference duplex-sponge model, step-by-step conformance on the real Challenger / RecursiveChallenger; bounded exhaustive state enumeration for the permutation layers against textbook Poseidon",
         "Every optimised Poseidon layer and the full permutation on 3^12 uniform-extreme states, all <=2-lane deviations over the representation alphabet from three base states and uniform/single-lane states, against a textbook round-by-round Poseidon on u128 arithmetic (anchored on the published test vectors); all message lengths 0..=40 x output counts for the sponge/compression functions; the challenger explored as a transition system: every sequence in {observe, get}^<=d (Poseidon and Keccak permutations) plus macro-operations, each step compared with a list-based duplex model, and every sequence up to a smaller depth replayed on the in-circuit RecursiveChallenger. Run in the checked profile.",
         "trusted: textbook Poseidon + list-based duplex model in harness/src/c13.rs (anchored on published test vectors); states outside the enumerated alphabets are not covered",
         "DESIGN.md §4 C13"),
 "C17": ("exploration",
         "bounded exploration over a circuit catalogue with a measured coverage obligation over the serializer registries; oracle = equality + byte idempotence after decode, identical witnesses/proofs from the restored circuit, cross verification",
         "A catalogue of ~45 circuits whose union instantiates every gate of DefaultGateSerializer (16) and every generator of DefaultGeneratorSerializer constructible through the public API (23 of 24; coverage is computed at run time from the built circuits against the registry lists parsed from the source files, an uncovered entry is a machinery error) - incl. lookups with 1-3 tables, zero-knowledge blinding, a recursion circuit, conditional recursion with the dummy-proof generator and configuration deviations. Per circuit: CircuitData, ProverCircuitData, VerifierCircuitData, CommonCircuitData, VerifierOnlyCircuitData -> to_bytes -> from_bytes -> equal, to_bytes again byte-identical, same digest, strided strict prefixes rejected without panic; interchange for up to 3 inputs: identical full witness and identical proof from the restored circuit (sequential prover, same blinding seed), each circuit verifies the other's proofs; proof and compressed-proof byte round trips (identity, idempotence, truncated encoding rejected). Circuits with unregistered gate types must be refused with an error.",
         "trusted: the types' own PartialEq plus byte idempotence; NonzeroTestGenerator is not constructible from outside the crate",
         "DESIGN.md §4 C17"),
 "C20": ("model_checking",
         "differential fault enumeration for conditional verification (full square of branch validities x condition values, every leaf of selected and unselected proof) + explicit-state BFS over cyclic-recursion histories with real proofs, invariants checked in every state and every single-element fault",
         "Conditional: an outer circuit conditionally_verify_proof(cond, pA, vdA, pB, vdB) built once over two inner circuits with equal common data but different keys (inner cap height differing from the outer's); cond in {0, 1, 2} x each branch in {valid, valid for another input, one tampered element per element kind, wrong verifier data, three false statements emitted by the real prover} in a full square, plus every leaf of the selected and of the unselected proof tampered: the derived assignment satisfies the circuit <=> cond is boolean AND the natively verified validity of the SELECTED branch, irrespective of the other; the _or_dummy variant likewise; dummy proofs for 5 public-input counts x degree bits 3..12 are produced and verify. Cyclic: the hash-chain circuit at the smallest degree closing the self-referential common data, BFS over event sequences {base, step, restart, fork} to depth 3 (thorough 4), states canonicalised by (counter, tip): every reachable proof verifies, passes check_cyclic_proof_verifier_data, carries the circuit's own verifier data, counter = number of steps, tip = reference Poseidon iterate; for every reachable proof used as predecessor each public input (hashes, counter, every verifier-data element) altered gives an unsatisfied assignment; check_cyclic_proof_verifier_data rejects every single-element alteration of embedded or supplied verifier data (thorough: and a proof of another cyclic circuit).",
         "trusted: exact satisfaction oracle, reference Poseidon; one pair of inner circuit shapes; chain length bounded by the depth",
         "DESIGN.md §4 C20"),
 "C14": ("exploration",
         "bounded exhaustive enumeration of operator x representation-alphabet tuples + BFS closure over raw representations, oracle = harness bigint arithmetic",
         "Every scalar operator of GoldilocksField on every pair/triple of the branch-derived representation alphabet R (75 raw u64 values incl. non-canonical ones), a BFS closure feeding results back as operands, the D=2,4,5 extensions against schoolbook arithmetic mod X^D-W on coordinate alphabets, batch inversion for every length 0..13 and the packed field lane by lane; run in the checked profile so that a false `assume` is a panic. Exhaustive inside the stated alphabets; the 2^128 operand pairs of the quantifier are out of reach of enumeration.",
         "trusted: u128 %% p reference arithmetic in harness/src/core.rs; alphabet R derived from the carry/borrow/EPSILON branch conditions",
         "DESIGN.md §4 C14"),
 "C15": ("exploration",
         "bounded exhaustive enumeration over sizes x option combinations x spanning input family, oracle = direct evaluation / schoolbook algebra in the harness",
         "FFT/IFFT/coset/LDE for every size 2^k up to the tier bound under every (zero_factor, root-table) option combination on every unit vector (= every entry of the transform matrix) plus boundary-valued and dense vectors, against direct evaluation; all ordered pairs of coefficient vectors up to length 4 over {0,1,p-1} through *, +, -, div_rem (both routines), divide_by_linear, inv_mod_xn, eval; interpolation on all point sets of size <= 4 from a 6-element abscissa alphabet; bit-reversal for every lb_n up to the bound with four element types (crossing every algorithm switch); transpose and integer helpers. Run in the checked profile.",
         "trusted: naive DFT / schoolbook polynomial arithmetic in harness/src/c15.rs; linearity of the transforms (unit vectors span the input space)",
         "DESIGN.md §4 C15"),
}

NOT_YET = {
}

def main():
    props = [json.loads(l) for l in open('/verif/properties.jsonl')]
    checks = []
    na = []
    for p in props:
        pid = p['id']
        if pid in CHECKS:
            level, tech, text, note, ref = CHECKS[pid]
            checks.append({
                "property_id": pid,
                "quick_cmd": f"./check {pid} --tier quick",
                "thorough_cmd": f"./check {pid} --tier thorough",
                "evidence_file": f"/verif/evidence/{pid}.json",
                "replay_cmd_template": f"./check {pid} --replay {{path}}",
                "engine": "mc",
                "level_claimed": {"category": level, "text": text, "design_ref": ref},
                "level_note": note,
                "technique": tech,
            })
        else:
            na.append({"property_id": pid, "reason": NOT_YET.get(pid, "check not built yet in this round (planned in DESIGN.md §4; the technique applies) — not claimed until its engine exists and has been run")})
    hooks_commits = subprocess.run(['git','-C','/repo','log','--format=%H %s','--grep=^verif-hook'],capture_output=True,text=True).stdout.strip().splitlines()
    m = {
        "version": 1,
        "setup_cmd": "cd /verif/harness && CARGO_NET_OFFLINE=true cargo build --offline --release && CARGO_NET_OFFLINE=true cargo build --offline --profile checked",
        "hooks": {
            "guard": "cargo feature `verif_hooks` (plonky2, starky, plonky2_field) and `verif_sched` (plonky2_maybe_rayon); off by default",
            "enable": "the harness crate /verif/harness depends on the /repo crates by path with the feature enabled (Cargo.toml feature `hooks`)",
            "baseline_off_cmd": "cd /repo && cargo nextest run --workspace --no-fail-fast --test-threads 8 --offline || cargo test --workspace --no-fail-fast --offline",
            "source_commits": [l.split()[0] for l in hooks_commits],
            "add_only": True,
        },
        "engines": [{"name": "mc", "path": "/verif/harness", "serves_properties": sorted(CHECKS), "kind_free_text": "stateless bounded-exhaustive explorer linking the real crates by path (product enumerators, choice-point DFS, BFS with canonical-state dedup) with independent reference models as oracles"}],
        "checks": checks,
        "not_applicable": na,
        "notes": "All checks rebuild the harness, and with it the crates under /repo, from the current working tree (cargo path dependencies). ./check <ID> exits 0/1/2 = held / VIOLATION / machinery error. known_findings.txt lists recorded genuine defects.",
    }
    json.dump(m, open('/verif/MANIFEST.json','w'), indent=1)
    print("checks:", len(checks), "not_applicable:", len(na))

main()
